#!/usr/bin/env python3
"""
Canonical-text substitution with a kernel-checked tie, for the FIRST translator's curve modules (OptBls, OptBn, RefBls, RefBn).

The property theorems of C07 / C13 / C17 / C18 (and everything built on them) are proved DIRECTLY about the definitions in
`Gen/<X>.lean`, and their case analyses follow the branch structure of those definitions.  A behaviour-preserving reshaping of
the Python (guard clauses instead of an `or`, a conditional expression instead of an `elif` chain, a named intermediate) changes
the generated term and used to break those proofs although the property still holds.

`data/canon/<X>.lean` is the text generated from the pinned tree.  On every run the translator output for the CURRENT source
("raw") is compared with it, definition by definition (comments and blank lines ignored):

 * identical            -> `Gen/<X>.lean` = raw (as before), no further obligation;
 * some definition differs -> `Gen/<X>.lean` keeps the canonical bodies (so every downstream proof still elaborates), the raw
   translation of the current source is written to `GenRaw/<X>.lean` (namespace `PyEcc.GenRaw.<X>`), and `Gen/TieRaw<X>.lean`
   states, for EVERY definition of the module, `@PyEcc.GenRaw.<X>.f = @PyEcc.Gen.<X>.f`.  These equalities are proof obligations
   of every property whose theorems import `Gen/<X>` (built and audited with them by check.py).  A theorem about `Gen.<X>.f`
   is then a theorem about the translation of the current source by rewriting with the tie.  If a tie does not check (the
   functions differ, or the closing tactic is too weak), that is a broken obligation like any other: failing-input search,
   then VIOLATION (… no-failing-input-found if none).

The tie proofs are generated here; the closing tactics live in `PyEcc/Lemmas/TieRawTac.lean`.
"""
import os
import re

HERE = os.path.dirname(os.path.abspath(__file__))
CANON_DIR = os.path.abspath(os.path.join(HERE, "..", "..", "data", "canon"))
MODULES = ("OptBls", "OptBn", "RefBls", "RefBn")   # Secp stays direct: its fuel is a 256-bit literal, which the kernel must not unfold

FIELD_BINDERS = ("{F : Type} [Zero F] [One F] [Add F] [Sub F] [Mul F] [Neg F] [Div F] "
                 "[NatCast F] [Pow F Nat] [DecidableEq F]")

_DEF = re.compile(r"^def\s+([^\s:(\[{]+)")
_STOP = re.compile(r"^(def\s|/-|end\b|section\b|variable\b|namespace\b|import\b|open\b|set_option\b|--)")


def split_defs(text):
    """-> (skeleton_lines, [(name, body_text)]): top-level `def` blocks in file order; everything else (imports, namespace,
    variables — but not comments or blank lines) is the skeleton"""
    lines = text.split("\n")
    skeleton, defs = [], []
    i = 0
    while i < len(lines):
        ln = lines[i]
        m = _DEF.match(ln)
        if m:
            j = i + 1
            while j < len(lines) and not _STOP.match(lines[j]):
                j += 1
            body = "\n".join(x.rstrip() for x in lines[i:j]).rstrip()
            defs.append((m.group(1), body))
            i = j
            continue
        s = ln.strip()
        if s and not s.startswith("/-") and not s.startswith("--"):
            skeleton.append(s)
        i += 1
    return skeleton, defs


def is_fuelled(body):
    """a fuelled recursion as emitted by py2lean: `def fAux : Nat → … ` with the cases `| 0, …` / `| fuel+1, …`"""
    head = body.split("\n", 1)[0]
    return bool(re.match(r"^def\s+\S+\s*:\s*Nat\s*→", head)) and "| fuel+1" in body


def fuel_arity(body):
    """number of arguments after the fuel: top-level arrows of the declared type minus one"""
    head = body.split("\n", 1)[0]
    ty = head.split(":", 1)[1]
    depth = n = 0
    for ch in ty:
        if ch in "([":
            depth += 1
        elif ch in ")]":
            depth -= 1
        elif ch == "→" and depth == 0:
            n += 1
    return max(n - 1, 0)


def merge(name, raw):
    """-> (gen_text, raw_module_text | None, tie_text | None, changed_defs)"""
    path = os.path.join(CANON_DIR, name + ".lean")
    if not os.path.exists(path):
        return raw, None, None, []
    canon = open(path).read()
    rs, rd = split_defs(raw)
    cs, cd = split_defs(canon)
    if rs != cs or [n for n, _ in rd] != [n for n, _ in cd]:
        return raw, None, None, []          # a different module shape: no substitution, downstream proofs decide
    changed = [n for (n, rb), (_, cb) in zip(rd, cd) if rb != cb]
    if not changed:
        # same definitions (only comments / line spans moved): keep the canonical file byte-identical, so that a shifted line
        # number does not rebuild every dependent proof (the header comments then show the pinned tree's line spans)
        return canon, None, None, []
    ns_gen, ns_raw = f"PyEcc.Gen.{name}", f"PyEcc.GenRaw.{name}"
    gen_text = canon      # byte-identical to the canonical text: nothing downstream is rebuilt
    raw_mod = raw.replace(f"namespace {ns_gen}", f"namespace {ns_raw}").replace(f"end {ns_gen}", f"end {ns_raw}")
    o = [f"-- GENERATED by tools/translate/canon.py: ties between the translation of the current source (GenRaw/{name}) and the\n"
         f"-- canonical text (Gen/{name}); changed definitions: {', '.join(changed)}. DO NOT EDIT.\n",
         f"import PyEcc.Gen.{name}\nimport PyEcc.GenRaw.{name}\nimport PyEcc.Lemmas.TieRawTac\n",
         "set_option maxRecDepth 4000\n",
         f"namespace PyEcc.TieRaw.{name}\n\n"]
    done = []
    for n, body in cd:
        prev = ", ".join(f"tie_{d}" for d in done)
        lem = f"{ns_raw}.{n}, {ns_gen}.{n}" + (", " + prev if prev else "")
        if is_fuelled(body):
            k = fuel_arity(body)
            args = " ".join(f"a{i}" for i in range(1, k + 1))
            o.append(f"/-- current source = canonical text: `{n}` (fuelled recursion, by induction on the fuel) -/\n"
                     f"theorem tie_{n} : @{ns_raw}.{n} = @{ns_gen}.{n} := by\n"
                     f"  raw_funext\n"
                     f"  rename_i fuel {args}\n"
                     f"  revert {args}\n"
                     f"  induction fuel with\n"
                     f"  | zero => intro {args}; first | rfl | (simp only [{lem}]; raw_close)\n"
                     f"  | succ k ih => intro {args}; simp only [{lem}, ih]; raw_close\n\n")
        else:
            o.append(f"/-- current source = canonical text: `{n}` -/\n"
                     f"theorem tie_{n} : @{ns_raw}.{n} = @{ns_gen}.{n} := by\n"
                     f"  raw_funext\n"
                     f"  first | (with_reducible rfl) | (simp only [{lem}]; raw_close)\n\n")
        done.append(n)
    o.append(f"end PyEcc.TieRaw.{name}\n")
    return gen_text, raw_mod, "".join(o), changed
