#!/usr/bin/env python3
"""
Mutation self-test of the BLS-API tie theorems (lean/PyEcc/Props/TieBls.lean, TieBlsAgg.lean).

Same procedure as tie_selftest.py (copy the repository, change ONE place, regenerate Gen/*.lean from the mutated tree, check
that `lake build PyEcc.Props.TieBlsAgg` now FAILS — translator refusal, or the generated file / a tie theorem no longer
compiles — and finally that the pristine tree builds again), but the place is addressed by (class, method) because
`ciphersuites.py` defines several methods of the same name.  `method = None` addresses the class-level statements.

  tie_selftest_bls.py --repo /repo --lean /path/to/lean [--only REGEX] [--work /tmp/tie_selftest_bls]
  tie_selftest_bls.py --repo <tree with refactoring NAME applied> --refactored NAME --lean /path/to/lean
"""
import argparse
import ast
import json
import os
import re
import shutil
import sys
import time

HERE = os.path.dirname(os.path.abspath(__file__))
sys.path.insert(0, HERE)
from tie_selftest import regenerate, run  # noqa: E402

REL = "py_ecc/bls/ciphersuites.py"
BASE, BASIC, AUG, POP = "BaseG2Ciphersuite", "G2Basic", "G2MessageAugmentation", "G2ProofOfPossession"

# (id, class, method or None, old text, new text, occurrence index within the addressed source segment)
MUTATIONS = [
    # --- class structure (the VALUES of the class attributes DST / POP_TAG are module constants: the model reads them from
    #     the regenerated Gen/Consts.lean, so changing one changes both sides of `DST_eq` consistently)
    ("attr-hash", BASE, None, "xmd_hash_function = sha256", "xmd_hash_function = ceil", 0),
    ("struct-override", BASIC, None, "    @classmethod\n    def AggregateVerify(",
     "    @staticmethod\n    def _is_valid_message(message: bytes) -> bool:\n        return len(message) > 0\n\n"
     "    @classmethod\n    def AggregateVerify(", 0),
    # --- validation helpers
    ("privkey-gt", BASE, "_is_valid_privkey", "privkey > 0", "privkey >= 0", 0),
    ("privkey-lt", BASE, "_is_valid_privkey", "privkey < curve_order", "privkey <= curve_order", 0),
    ("privkey-isinstance", BASE, "_is_valid_privkey", "isinstance(privkey, int) and ", "", 0),
    ("pubkey-48", BASE, "_is_valid_pubkey", "== 48", "== 49", 0),
    ("pubkey-or", BASE, "_is_valid_pubkey", "isinstance(pubkey, bytes) and", "isinstance(pubkey, bytes) or", 0),
    ("message-nonempty", BASE, "_is_valid_message", "isinstance(message, bytes)", "isinstance(message, bytes) and len(message) > 0", 0),
    ("message-not", BASE, "_is_valid_message", "return isinstance", "return not isinstance", 0),
    ("signature-96", BASE, "_is_valid_signature", "== 96", "== 95", 0),
    ("signature-ge", BASE, "_is_valid_signature", "len(signature) == 96", "len(signature) >= 96", 0),
    ("pop-pubkey-super", POP, "_is_valid_pubkey", "if not super()._is_valid_pubkey(pubkey):", "if super()._is_valid_pubkey(pubkey):", 0),
    ("pop-pubkey-nokv", POP, "_is_valid_pubkey", "return cls.KeyValidate(BLSPubkey(pubkey))", "return True", 0),
    # --- SkToPk, KeyValidate
    ("sktopk-plus", BASE, "SkToPk", "multiply(G1, privkey)", "multiply(G1, privkey + 1)", 0),
    ("sktopk-exc", BASE, "SkToPk", 'raise ValidationError("Invalid private key")', 'raise ValueError("Invalid private key")', 0),
    ("sktopk-noguard", BASE, "SkToPk", "if not cls._is_valid_privkey(privkey):", "if cls._is_valid_privkey(privkey):", 0),
    ("keyvalidate-len", BASE, "KeyValidate", "len(PK) == 48", "len(PK) == 47", 0),
    ("keyvalidate-except", BASE, "KeyValidate", "except (ValidationError, ValueError, AssertionError)", "except (ValidationError, AssertionError)", 0),
    ("keyvalidate-inf", BASE, "KeyValidate", "        if is_inf(pubkey_point):\n            return False", "        if is_inf(pubkey_point):\n            return True", 0),
    ("keyvalidate-nosubgroup", BASE, "KeyValidate", "        if not subgroup_check(pubkey_point):\n            return False\n", "", 0),
    ("keyvalidate-handler", BASE, "KeyValidate", "AssertionError):\n            return False", "AssertionError):\n            return True", 0),
    # --- signing
    ("coresign-plus", BASE, "_CoreSign", "multiply(message_point, SK)", "multiply(message_point, SK + 1)", 0),
    ("coresign-args", BASE, "_CoreSign", "hash_to_G2(message, DST,", "hash_to_G2(DST, message,", 0),
    ("coresign-exc", BASE, "_CoreSign", 'raise ValidationError("Invalid secret key")', 'raise ValueError("Invalid secret key")', 0),
    ("coresign-noguard", BASE, "_CoreSign", "        if not cls._is_valid_privkey(SK):\n            raise ValidationError(\"Invalid secret key\")\n", "", 0),
    ("sign-dst", BASE, "Sign", "cls.DST", 'cls.DST + b"x"', 0),
    ("sign-args", BASE, "Sign", "(SK, message, cls.DST)", "(SK, cls.DST, message)", 0),
    ("augsign-order", AUG, "Sign", "PK + message", "message + PK", 0),
    ("augsign-nopk", AUG, "Sign", "PK + message", "message", 0),
    ("popprove-tag", POP, "PopProve", "cls.POP_TAG", "cls.DST", 0),
    ("popprove-msg", POP, "PopProve", "(SK, pubkey, cls.POP_TAG)", "(SK, pubkey + pubkey, cls.POP_TAG)", 0),
    # --- verification
    ("coreverify-nokv", BASE, "_CoreVerify", "            if not cls.KeyValidate(PK):\n                raise ValidationError(\"Invalid public key\")\n", "", 0),
    ("coreverify-subgroup", BASE, "_CoreVerify", "            if not subgroup_check(signature_point):\n                return False", "            if not subgroup_check(signature_point):\n                return True", 0),
    ("coreverify-g1", BASE, "_CoreVerify", "                    G1,\n", "                    neg(G1),\n", 0),
    ("coreverify-noneg", BASE, "_CoreVerify", "neg(pubkey_to_G1(PK))", "pubkey_to_G1(PK)", 0),
    ("coreverify-ne", BASE, "_CoreVerify", "final_exponentiation == FQ12.one()", "final_exponentiation != FQ12.one()", 0),
    ("coreverify-except", BASE, "_CoreVerify", "except (ValidationError, ValueError, AssertionError)", "except (ValidationError, AssertionError)", 0),
    ("coreverify-handler", BASE, "_CoreVerify", "AssertionError):\n            return False", "AssertionError):\n            return True", 0),
    ("coreverify-fe", BASE, "_CoreVerify", "final_exponentiate=False", "final_exponentiate=True", 0),
    ("coreverify-siglen", BASE, "_CoreVerify", "            if not cls._is_valid_signature(signature):\n                raise ValidationError(\"Invalid signature\")\n", "", 0),
    ("verify-args", BASE, "Verify", "(PK, message, signature, cls.DST)", "(message, PK, signature, cls.DST)", 0),
    ("verify-tag", BASE, "Verify", "cls.DST", "cls.POP_TAG", 0),
    ("augverify-nopk", AUG, "Verify", "PK + message", "message", 0),
    ("augverify-order", AUG, "Verify", "PK + message", "message + PK", 0),
    ("popverify-args", POP, "PopVerify", "(PK, PK, proof, cls.POP_TAG)", "(PK, proof, PK, cls.POP_TAG)", 0),
    ("popverify-tag", POP, "PopVerify", "cls.POP_TAG", "cls.DST", 0),
    # --- aggregation
    ("aggregate-n", BASE, "Aggregate", "len(signatures) < 1", "len(signatures) < 2", 0),
    ("aggregate-order", BASE, "Aggregate", "add(aggregate, signature_point)", "add(signature_point, aggregate)", 0),
    ("aggregate-noloop", BASE, "Aggregate", "        for signature in signatures:\n            if not cls._is_valid_signature(signature):\n                raise ValidationError(\"Invalid signature\")\n", "", 0),
    ("aggregate-seed", BASE, "Aggregate", "aggregate = Z2", "aggregate = signature_to_G2(signatures[0])", 0),
    ("coreagg-neg", BASE, "_CoreAggregateVerify", "neg(G1)", "G1", 0),
    ("coreagg-len", BASE, "_CoreAggregateVerify", "if not len(PKs) == len(messages):", "if len(PKs) == len(messages):", 0),
    ("coreagg-n", BASE, "_CoreAggregateVerify", "len(PKs) < 1", "len(PKs) < 2", 0),
    ("coreagg-zip", BASE, "_CoreAggregateVerify", "zip(PKs, messages)", "zip(messages, PKs)", 0),
    ("coreagg-one", BASE, "_CoreAggregateVerify", "aggregate = FQ12.one()", "aggregate = FQ12.zero()", 0),
    ("coreagg-nokv", BASE, "_CoreAggregateVerify", "                if not cls.KeyValidate(pk):\n                    raise ValidationError(\"Invalid public key\")\n", "", 0),
    ("coreagg-except", BASE, "_CoreAggregateVerify", "except (ValidationError, ValueError, AssertionError)", "except (ValueError, AssertionError)", 0),
    ("coreagg-nopkloop", BASE, "_CoreAggregateVerify", "            for pk in PKs:\n                if not cls._is_valid_pubkey(pk):\n                    raise ValidationError(\"Invalid public key\")\n", "", 0),
    ("basicagg-eq", BASIC, "AggregateVerify", "len(messages) != len(set(messages))", "len(messages) == len(set(messages))", 0),
    ("basicagg-set", BASIC, "AggregateVerify", "set(messages)", "set(PKs)", 0),
    ("basicagg-nocheck", BASIC, "AggregateVerify", "        if len(messages) != len(set(messages)):  # Messages are not unique\n            return False\n", "", 0),
    ("augagg-order", AUG, "AggregateVerify", "pk + msg", "msg + pk", 0),
    ("augagg-len", AUG, "AggregateVerify", "len(PKs) != len(messages)", "len(PKs) < len(messages)", 0),
    ("augagg-noprefix", AUG, "AggregateVerify", "        messages = [pk + msg for pk, msg in zip(PKs, messages)]\n", "", 0),
    ("popagg-tag", POP, "AggregateVerify", "cls.DST", "cls.POP_TAG", 0),
    ("popagg-not", POP, "AggregateVerify", "return cls._CoreAggregateVerify(", "return not cls._CoreAggregateVerify(", 0),
    ("popagg-dup", POP, "AggregateVerify", "        return cls._CoreAggregateVerify(", "        if len(messages) != len(set(messages)):\n            return False\n        return cls._CoreAggregateVerify(", 0),
    ("aggpks-seed", POP, "_AggregatePKs", "aggregate = Z1", "aggregate = G1", 0),
    ("aggpks-n", POP, "_AggregatePKs", "len(PKs) < 1", "len(PKs) < 2", 0),
    ("aggpks-order", POP, "_AggregatePKs", "add(aggregate, pubkey_point)", "add(pubkey_point, aggregate)", 0),
    ("fastagg-except", POP, "FastAggregateVerify", "except (ValidationError, AssertionError)", "except (ValidationError, ValueError, AssertionError)", 0),
    ("fastagg-args", POP, "FastAggregateVerify", "cls.Verify(aggregate_pubkey, message, signature)", "cls.Verify(aggregate_pubkey, signature, message)", 0),
    ("fastagg-sig", POP, "FastAggregateVerify", "if not cls._is_valid_signature(signature):", "if cls._is_valid_signature(signature):", 0),
    ("fastagg-handler", POP, "FastAggregateVerify", "AssertionError):\n            return False", "AssertionError):\n            return True", 0),
    ("fastagg-nopkloop", POP, "FastAggregateVerify", "            for pk in PKs:\n                if not cls._is_valid_pubkey(pk):\n                    raise ValidationError(\"Invalid public key\")\n", "", 0),
    # --- KeyGen
    ("keygen-salt", BASE, "KeyGen", 'b"BLS-SIG-KEYGEN-SALT-"', 'b"BLS-SIG-KEYGEN-SALT"', 0),
    ("keygen-L", BASE, "KeyGen", "1.5 * ceil", "2 * ceil", 0),
    ("keygen-i2osp", BASE, "KeyGen", "i2osp(l, 2)", "i2osp(l, 1)", 0),
    ("keygen-zero", BASE, "KeyGen", 'IKM + b"\\x00"', "IKM", 0),
    ("keygen-mod", BASE, "KeyGen", "% curve_order", "% (curve_order - 1)", 0),
    ("keygen-cond", BASE, "KeyGen", "while SK == 0:", "while SK != 0:", 0),
    ("keygen-nohash", BASE, "KeyGen", "            salt = cls.xmd_hash_function(salt).digest()\n", "", 0),
    ("keygen-info", BASE, "KeyGen", "key_info + i2osp(l, 2)", "i2osp(l, 2) + key_info", 0),
]

# Mutations of REFACTORED trees (behaviour-preserving rewrites of ciphersuites.py that the translator normalises or the tie
# proofs absorb): the same one-place changes must still be caught when the source is written in the new spelling.  The key is
# the name of the refactoring (`--refactored NAME`, with `--repo` pointing at a tree to which that refactoring has been applied).
RMUTATIONS = {
    # refactorings/C03-g5-aggregate-all-and-basic-unique
    "C03": [
        ("r-all-any", BASE, "Aggregate", "if not all(", "if not any(", 0),
        ("r-all-neg", BASE, "Aggregate", "all(cls._is_valid_signature(sig)", "all(not cls._is_valid_signature(sig)", 0),
        ("r-all-drop", BASE, "Aggregate", "        if not all(cls._is_valid_signature(sig) for sig in signatures):\n"
         "            raise ValidationError(\"Invalid signature\")\n", "", 0),
        ("r-all-exc", BASE, "Aggregate", 'raise ValidationError("Invalid signature")', 'raise ValueError("Invalid signature")', 0),
        ("r-sum-order", BASE, "Aggregate", "add(running_sum, signature_to_G2(sig))", "add(signature_to_G2(sig), running_sum)", 0),
        ("r-unique-ne", BASIC, "AggregateVerify", "len(messages) == len(set(messages))", "len(messages) != len(set(messages))", 0),
        ("r-unique-or", BASIC, "AggregateVerify", "messages_are_unique and cls", "messages_are_unique or cls", 0),
        ("r-unique-drop", BASIC, "AggregateVerify", "return messages_are_unique and cls", "return cls", 0),
        ("r-unique-set", BASIC, "AggregateVerify", "set(messages)", "set(PKs)", 0),
    ],
    # refactorings/C04-g5-keyvalidate-aggverify-tidy
    "C04": [
        ("r-kv-noneg", BASE, "KeyValidate", "return not is_inf(point) and", "return is_inf(point) and", 0),
        ("r-kv-or", BASE, "KeyValidate", "not is_inf(point) and subgroup_check(point)", "not is_inf(point) or subgroup_check(point)", 0),
        ("r-kv-nosub", BASE, "KeyValidate", "not is_inf(point) and subgroup_check(point)", "not is_inf(point)", 0),
        ("r-kv-noinf", BASE, "KeyValidate", "not is_inf(point) and subgroup_check(point)", "subgroup_check(point)", 0),
        ("r-agg-len", BASE, "_CoreAggregateVerify", "if len(PKs) != len(messages):", "if len(PKs) == len(messages):", 0),
        ("r-agg-allpk-iter", BASE, "_CoreAggregateVerify", "for pk in PKs):", "for pk in messages):", 0),
        ("r-agg-allpk-any", BASE, "_CoreAggregateVerify", "if not all(cls._is_valid_pubkey(pk)", "if not any(cls._is_valid_pubkey(pk)", 0),
        ("r-agg-allpk-drop", BASE, "_CoreAggregateVerify", "            if not all(cls._is_valid_pubkey(pk) for pk in PKs):\n"
         "                raise ValidationError(\"Invalid public key\")\n", "", 0),
        ("r-agg-allpk-exc", BASE, "_CoreAggregateVerify", 'raise ValidationError("Invalid public key")', 'raise TypeError("Invalid public key")', 0),
    ],
    # refactorings/C01-g5-keygen-coreverify-locals (the KeyGen hunk is also that of C16-g5-keygen-hkdf-tidy)
    "C01": [
        ("r-keygen-L", BASE, "KeyGen", "1.5 * ceil", "2 * ceil", 0),
        ("r-keygen-i2osp", BASE, "KeyGen", "i2osp(okm_length, 2)", "i2osp(okm_length, 1)", 0),
        ("r-keygen-len", BASE, "KeyGen", "i2osp(okm_length, 2), okm_length)", "i2osp(okm_length, 2), okm_length + 1)", 0),
        ("r-keygen-mod", BASE, "KeyGen", "% curve_order", "% (curve_order - 1)", 0),
        ("r-keygen-cond", BASE, "KeyGen", "while SK == 0:", "while SK != 0:", 0),
        ("r-keygen-nohash", BASE, "KeyGen", "            salt = cls.xmd_hash_function(salt).digest()\n", "", 0),
        ("r-cv-g1", BASE, "_CoreVerify", "pairing(signature_point, G1,", "pairing(signature_point, neg(G1),", 0),
        ("r-cv-noneg", BASE, "_CoreVerify", "neg(pubkey_to_G1(PK))", "pubkey_to_G1(PK)", 0),
        ("r-cv-product", BASE, "_CoreVerify", "signature_pairing * message_pairing", "signature_pairing * signature_pairing", 0),
        ("r-cv-ne", BASE, "_CoreVerify", "final_exponentiate(product) == FQ12.one()", "final_exponentiate(product) != FQ12.one()", 0),
        ("r-cv-fe", BASE, "_CoreVerify", "final_exponentiate=False", "final_exponentiate=True", 0),
    ],
    # refactorings/C09-g5-inline-sign-serialization (ciphersuites.py part)
    "C09": [
        ("r-cs-plus", BASE, "_CoreSign", "multiply(hashed_message, SK)", "multiply(hashed_message, SK + 1)", 0),
        ("r-cs-args", BASE, "_CoreSign", "hash_to_G2(message, DST,", "hash_to_G2(DST, message,", 0),
        ("r-augsign-order", AUG, "Sign", "cls.SkToPk(SK) + message", "message + cls.SkToPk(SK)", 0),
        ("r-augsign-nopk", AUG, "Sign", "augmented_message = cls.SkToPk(SK) + message", "augmented_message = message", 0),
    ],
}


def span(src, cname, mname):
    tree = ast.parse(src)
    for c in tree.body:
        if isinstance(c, ast.ClassDef) and c.name == cname:
            if mname is None:
                return c.lineno - 1, c.end_lineno
            for n in c.body:
                if isinstance(n, ast.FunctionDef) and n.name == mname:
                    first = min([n.lineno] + [d.lineno for d in n.decorator_list])
                    return first - 1, n.end_lineno
    raise SystemExit(f"{cname}.{mname} not found")


def mutate(repo_mut, cname, mname, old, new, occ):
    p = os.path.join(repo_mut, REL)
    src = open(p).read()
    lines = src.split("\n")
    a, b = span(src, cname, mname)
    seg = "\n".join(lines[a:b]) + "\n"
    idxs = [m.start() for m in re.finditer(re.escape(old), seg)]
    if len(idxs) <= occ:
        raise SystemExit(f"{cname}.{mname}: token {old!r} occurrence {occ} not found")
    i = idxs[occ]
    seg2 = seg[:i] + new + seg[i + len(old):]
    out = "\n".join(lines[:a]) + "\n" + seg2 + "\n".join(lines[b:])
    ast.parse(out)   # the mutant must still be Python
    open(p, "w").write(out)


def main():
    ap = argparse.ArgumentParser()
    ap.add_argument("--repo", default="/repo")
    ap.add_argument("--lean", required=True)
    ap.add_argument("--work", default="/tmp/tie_selftest_bls")
    ap.add_argument("--only", default=None, help="regex on mutation ids")
    ap.add_argument("--target", default="PyEcc.Props.TieBlsAgg")
    ap.add_argument("--refactored", default=None, choices=sorted(RMUTATIONS),
                    help="use the mutation list for this refactoring (--repo must be a tree with that refactoring applied)")
    a = ap.parse_args()
    gen_dir = os.path.join(a.lean, "PyEcc", "Gen")
    env = dict(os.environ)
    env["PATH"] = "/opt/veriftools/lean/bin:" + env["PATH"]
    results = []
    pool = MUTATIONS if a.refactored is None else RMUTATIONS[a.refactored]
    muts = [m for m in pool if a.only is None or re.search(a.only, m[0])]
    for mid, cname, mname, old, new, occ in muts:
        repo_mut = os.path.join(a.work, "repo_mut")
        shutil.rmtree(repo_mut, ignore_errors=True)
        shutil.copytree(a.repo, repo_mut, ignore=shutil.ignore_patterns(".git", "__pycache__", ".tox", "*.pyc"))
        mutate(repo_mut, cname, mname, old, new, occ)
        gen_out = os.path.join(a.work, "Gen")
        shutil.rmtree(gen_out, ignore_errors=True)
        shutil.copytree(gen_dir, gen_out)
        rc, info = regenerate(repo_mut, gen_out)
        changed = [c for c in info["changed"] if c.startswith("Extra") or c == "Consts"]
        verdict, detail = None, ""
        errs = [e for e in info["errors"] if e[0].startswith("Extra") or e[0] == "Consts"]
        if errs:
            verdict = "caught: translator refused"
            detail = "; ".join(f"{e[0]}: {e[1][:160]}" for e in errs)
        elif not changed:
            verdict = "NOT CAUGHT: generated files unchanged"
        else:
            saved = {}
            for c in changed:
                dst = os.path.join(gen_dir, c + ".lean")
                saved[dst] = open(dst).read() if os.path.exists(dst) else None
                shutil.copy(os.path.join(gen_out, c + ".lean"), dst)
            t0 = time.time()
            r = run(["lake", "build", a.target], cwd=a.lean, env=env)
            dt = time.time() - t0
            for dst, txt in saved.items():
                if txt is None:
                    os.remove(dst)
                else:
                    open(dst, "w").write(txt)
            if r.returncode != 0:
                es = [ln for ln in (r.stdout + r.stderr).splitlines() if "error" in ln and not ln.startswith("trace")]
                verdict = f"caught: build failed ({dt:.0f}s)"
                detail = " | ".join(es[:2])[:300]
            else:
                verdict = f"NOT CAUGHT: build succeeded ({dt:.0f}s)"
        results.append((mid, verdict, detail))
        print(f"{mid:24s} {cname}.{mname}: {old[:40]!r} -> {new[:40]!r}: {verdict}\n    {detail}", flush=True)
    r = run(["lake", "build", a.target], cwd=a.lean, env=env)
    print("pristine rebuild:", "ok" if r.returncode == 0 else "FAILED\n" + r.stdout[-2000:])
    bad = [x for x in results if x[1].startswith("NOT")]
    print(json.dumps({"mutations": len(results), "caught": len(results) - len(bad), "not_caught": [x[0] for x in bad]}))
    return 1 if bad or r.returncode != 0 else 0


if __name__ == "__main__":
    sys.exit(main())
