"""
py2lean_hash — extension of `ExtraTranslator` for the byte/hash layer of py_ecc (`py_ecc/bls/hash.py`, the
field half of `py_ecc/bls/hash_to_curve.py`, `bytes_to_int` / `deterministic_generate_k` of secp256k1) and for
the remaining list-manipulating helpers (`twist`, `cast_point_to_fq12`, `exp_by_p`, `iso_map_G1/G2`).

What is added on top of `py2lean_extra.ExtraTranslator` (everything else still raises `TranslateError`):

  byte strings (`Bytes = List UInt8`)
    * literals `b"\\x00"`, `b"\\x00" * n` (`List.replicate n 0`), `+` (`++`), `len`, slices `x[a:b]` with natural-number
      bounds (`(x.drop a).take (b - a)`, exact for all naturals a, b; `x[e : e + L]` is emitted as `(x.drop e).take L`),
      `bytearray(0)` (empty), `bytearray(<bytes>)` / `bytes(<bytes>)` (a copy = the same value),
      `bytes([v])` (RAISES ValueError unless `v < 256`), `bytes(a ^ b for a, b in zip(x, y))` (`List.zipWith`),
      `b"".join(L)` (`List.flatten`), iteration `for b in x` (elements of type `UInt8`; `safe_ord(b)` is `b.toNat`,
      after checking that `safe_ord` has exactly the expected body),
      `x.to_bytes(n, byteorder="big", signed=False)` (`i2osp x n`, RAISES OverflowError),
      `int.from_bytes(x, byteorder="big", signed=False)` (`os2ip x`);
  hashing
    * a parameter annotated `HASH` is a `HashFn`; `h().digest_size`, `h().block_size`, `h(data).digest()` are
      `h.digestSize`, `h.blockSize`, `h.run data`;
    * `hashlib.sha256` is replaced by an explicit extra parameter `H : HashFn` of the generated function;
      `hmac.new(key, msg, h).digest()` is the model's RFC 2104 `hmac h key msg`;
    * `math.ceil(a / b)` on natural numbers is `ceilDiv a b` (exact integer ceiling; the Python expression goes
      through a float, which is exact only below 2**53, and raises ZeroDivisionError for b = 0: neither is represented);
  lists
    * `x = []` (element type inferred from the first `x.append(..)`, by re-translation), `[e]`, `[e1, ..]`, `[c] * k`,
      `L1 + L2`, `L.append(e)` / `L.extend(M)` (re-binding `L := L ++ [e]` / `L ++ M`, after an aliasing check: a
      mutated list is a local variable whose value never escapes by reference), `tuple(L)`,
      `L[i]` with a natural-number index (RAISES IndexError -> `PyErr.other`, there is no dedicated constructor),
      `L[-1:][0]` handled as `L[len(L) - 1]` when it is the whole expression (RAISES IndexError for the empty list);
    * `for i in range(a, b)` (`List.range' a (b - a)`; `List.range b` when a = 0, so that `range(0, n)` and `range(n)` give the
      SAME output; `a` may be any natural-number expression: `range(a, b)` is empty when `b <= a`, as is `List.range' a (b - a)`
      with truncated subtraction), nested `for` loops, `for i, x in enumerate(L)`, `reversed(L[:-1])`, `zip`;
    * `sum((e for x, y in zip(A, B)), start)` as a left fold starting from `start`;
    * comprehensions `[elt for x in it if c ..]`, also as `tuple(elt for ..)` / `list(elt for ..)`: the iterable is evaluated once
      in the enclosing scope, then for each element in order the conditions and `elt`; `List.map` over (`List.filter` of) the
      iterable when `elt` cannot raise, `List.mapM` in `Except` (left to right, the first exception ends the evaluation) when it
      can; conditions that could raise are refused; one `for` clause only; the target is local to the comprehension;
    * `L[::2]`, `L[:-1]` of a list / tuple also as a VALUE (`even = L[::2]`): `everyOther L`, `L.dropLast` (a slice is a new object);
      `x not in L` is `¬ (x in L)`;
    * `x += e` on a local name: `x = x + e` on the immutable types; on a list / bytearray it is the in-place `x.extend(e)` (`x` is
      then subject to the aliasing check like any mutated list); `x <op>= e` for the other operators is `x = x <op> e`;
  loops
    * the loop-carried variables of a `for` loop form the state tuple IN THE ORDER OF THEIR FIRST ASSIGNMENT IN THE LOOP BODY
      (`for_loop_core`; the base class sorts them by name, so that renaming a local could permute the tuple);
  ints
    * `a << k` for a literal `k >= 0` is `a * 2 ^ k` (exact on all Python ints).

A raising primitive inside an expression is hoisted in evaluation order as `let r ← ..` (the mechanism of
`ExtraTranslator`).
"""
import ast
import copy

import py2lean_extra as X
from py2lean import BOOL, INT, LIT, NAT, T, Fn, TranslateError, indent, lname  # noqa: F401
from py2lean_extra import BINT, BYTES, HASHFN, LIST, Ext, ExtraTranslator, is_field, lean_type_x, paren  # noqa: F401

BYTE = "UInt8"
X._ATOMS.add(BYTE)        # a byte is not a field element: no arithmetic on it is translated except `^` and `safe_ord`
UNK = "?elem"             # element type of a `[]` that has not been determined yet (never reaches the output)
X._ATOMS.add(UNK)

APPEND, EXTEND, SETITEM, IADD = "__py_append", "__py_extend", "__py_setitem", "__py_iadd"

SAFE_ORD_BODY = "if isinstance(value, int):\n    return value\nelse:\n    return ord(value)"


class Retry(Exception):
    """the element type of an empty list display became known: translate the function again"""


def check_fn_body(tree, name, params, body_src, path):
    """pin a helper that is mapped to a Lean primitive: its parameter names and its body (docstring removed) must be
    exactly as expected"""
    for n in tree.body:
        if isinstance(n, ast.FunctionDef) and n.name == name:
            body = [s for s in n.body if not (isinstance(s, ast.Expr) and isinstance(s.value, ast.Constant)
                                              and isinstance(s.value.value, str))]
            got = "\n".join(ast.unparse(s) for s in body)
            if [a.arg for a in n.args.args] != list(params) or got != body_src or n.decorator_list \
                    or n.args.defaults or n.args.vararg or n.args.kwarg or n.args.kwonlyargs:
                raise TranslateError(f"{path}: helper {name} is not the expected function:\n{got}")
            return
    raise TranslateError(f"{path}: helper {name} not found")


class _Mutations(ast.NodeTransformer):
    """`L.append(e)` / `L.extend(M)` / `L[i] = e` as statements become assignments to `L` of pseudo-calls"""

    def __init__(self):
        self.mutated = set()

    def visit_Expr(self, node):
        v = node.value
        if isinstance(v, ast.Call) and isinstance(v.func, ast.Attribute) and v.func.attr in ("append", "extend") \
                and isinstance(v.func.value, ast.Name) and len(v.args) == 1 and not v.keywords:
            n = v.func.value.id
            self.mutated.add(n)
            pseudo = APPEND if v.func.attr == "append" else EXTEND
            new = ast.Assign(targets=[ast.Name(id=n, ctx=ast.Store())],
                             value=ast.Call(func=ast.Name(id=pseudo, ctx=ast.Load()),
                                            args=[ast.Name(id=n, ctx=ast.Load()), v.args[0]], keywords=[]))
            return ast.copy_location(new, node)
        return node

    def visit_AugAssign(self, node):
        """`x += e` on a local name: for the immutable types (ints, bytes, field elements) it re-binds `x = x + e`; for a list or a
        bytearray it extends the object in place, so `x` is treated as mutated (aliasing check) and re-bound to `x ++ e`.  Which
        of the two it is is decided from the type of `x` when the pseudo-call is translated.  `x <op>= e` for the other operators
        is `x = x <op> e` (they are only translated on immutable types)."""
        if not isinstance(node.target, ast.Name):
            return node
        n = node.target.id
        load = ast.Name(id=n, ctx=ast.Load())
        if isinstance(node.op, ast.Add):
            self.mutated.add(n)
            value = ast.Call(func=ast.Name(id=IADD, ctx=ast.Load()), args=[load, node.value], keywords=[])
        else:
            value = ast.BinOp(left=load, op=node.op, right=node.value)
        return ast.copy_location(ast.Assign(targets=[ast.Name(id=n, ctx=ast.Store())], value=value), node)

    def visit_Assign(self, node):
        if len(node.targets) == 1 and isinstance(node.targets[0], ast.Subscript) \
                and isinstance(node.targets[0].value, ast.Name) and not isinstance(node.targets[0].slice, ast.Slice):
            n = node.targets[0].value.id
            self.mutated.add(n)
            new = ast.Assign(targets=[ast.Name(id=n, ctx=ast.Store())],
                             value=ast.Call(func=ast.Name(id=SETITEM, ctx=ast.Load()),
                                            args=[ast.Name(id=n, ctx=ast.Load()), node.targets[0].slice, node.value],
                                            keywords=[]))
            return ast.copy_location(new, node)
        return node


def is_none_test(t):
    return isinstance(t, ast.Compare) and len(t.ops) == 1 and isinstance(t.ops[0], ast.Is) and isinstance(t.left, ast.Name) \
        and isinstance(t.comparators[0], ast.Constant) and t.comparators[0].value is None


def static_len(e):
    """length of a list expression built from displays, `[c] * k` and `+`, or None"""
    if isinstance(e, ast.List):
        return len(e.elts)
    if isinstance(e, ast.BinOp) and isinstance(e.op, ast.Add):
        a, b = static_len(e.left), static_len(e.right)
        return None if a is None or b is None else a + b
    if isinstance(e, ast.BinOp) and isinstance(e.op, ast.Mult) and isinstance(e.left, ast.List) \
            and isinstance(e.right, ast.Constant) and isinstance(e.right.value, int) and e.right.value >= 0:
        return len(e.left.elts) * e.right.value
    return None


class _ListAsTuple(ast.NodeTransformer):
    """`xs = [a, b]` where `xs` is assigned once, never mutated and only ever read as `xs[<constant>]`: the display is
    read as a tuple (constant indexing behaves identically; an out-of-range constant index is a translation error)"""

    def __init__(self, fn, mutated):
        parent = {}
        for p in ast.walk(fn):
            for c in ast.iter_child_nodes(p):
                parent[c] = p
        stores, bad = {}, set()
        for n in ast.walk(fn):
            if isinstance(n, ast.Name):
                p = parent.get(n)
                if isinstance(n.ctx, ast.Store):
                    if isinstance(p, ast.Assign) and len(p.targets) == 1 and p.targets[0] is n and isinstance(p.value, ast.List) \
                            and p.value.elts and parent.get(p) is fn:
                        stores.setdefault(n.id, []).append(p)
                    else:
                        bad.add(n.id)
                elif not (isinstance(p, ast.Subscript) and p.value is n and isinstance(p.ctx, ast.Load)
                          and isinstance(p.slice, ast.Constant) and isinstance(p.slice.value, int)
                          and not isinstance(p.slice.value, bool) and 0 <= p.slice.value):
                    bad.add(n.id)
        bad |= {a.arg for a in fn.args.args} | set(mutated)
        self.targets = {v[0] for k, v in stores.items() if k not in bad and len(v) == 1}

    def visit_Assign(self, node):
        if node in self.targets:
            node.value = ast.copy_location(ast.Tuple(elts=node.value.elts, ctx=ast.Load()), node.value)
        return node


class _ForTargets(ast.NodeTransformer):
    """`for a, b in <iter>: body`  ->  `for it__k in <iter>: a = it__k[0]; b = it__k[1]; body`"""

    def __init__(self):
        self.k = 0

    def visit_For(self, node):
        self.generic_visit(node)
        tg = node.target
        if isinstance(tg, ast.Tuple) and all(isinstance(x, ast.Name) for x in tg.elts) and len({x.id for x in tg.elts}) == len(tg.elts):
            name = f"it__{self.k}"
            self.k += 1
            pre = [ast.Assign(targets=[ast.Name(id=x.id, ctx=ast.Store())],
                              value=ast.Subscript(value=ast.Name(id=name, ctx=ast.Load()), slice=ast.Constant(value=i), ctx=ast.Load()))
                   for i, x in enumerate(tg.elts)]
            node.target = ast.Name(id=name, ctx=ast.Store())
            node.body = pre + node.body
        return node


def same_ast(a, b):
    return ast.dump(a) == ast.dump(b)


class HashTranslator(ExtraTranslator):
    def __init__(self, mode, hashparam=None, copying=(), ctors=None, coeff_elem=None, elem_to_int=None, **kw):
        super().__init__(mode, **kw)
        self.ctors = dict(ctors or {})            # class name -> (field type, number of coefficients, template over {0})
        self.coeff_elem = dict(coeff_elem or {})  # field type -> type of `x.coeffs[i]` (default Int)
        self.elem_to_int = dict(elem_to_int or {})  # base-field type -> template for its int value (FQ -> .n)
        self._int_list = False
        self.hashparam = hashparam      # name of the explicit HashFn parameter that stands for `hashlib.sha256`
        self.copying = set(copying)     # constructors that copy their list argument (FQ2(..)): no aliasing
        self.hints = {}                 # local name -> element type of its `[]`
        self.lower = {}                 # loop variable -> constant lower bound
        self._env = {}
        self.mutated = set()

    # ------------------------------------------------------------------ types
    def ann_type(self, ann):
        s = ast.unparse(ann) if not isinstance(ann, str) else ann
        s = s.strip("'\"")
        if s in self.tymap:
            return self.tymap[s]
        if s.startswith("Tuple[") and s.endswith(", ...]"):
            return LIST(self.ann_type(s[len("Tuple["):-len(", ...]")]))
        return super().ann_type(ann)

    # ------------------------------------------------------------------ helpers
    def is_hashfn_expr(self, e, env):
        """`hashlib.sha256` or a HashFn-typed name: returns the Lean text or None"""
        if isinstance(e, ast.Attribute) and isinstance(e.value, ast.Name) and e.value.id == "hashlib" \
                and "hashlib" not in env and e.attr == "sha256":
            if self.hashparam is None or env.get(self.hashparam) != HASHFN:
                raise TranslateError("hashlib.sha256 used but no explicit HashFn parameter configured")
            return lname(self.hashparam)
        if isinstance(e, ast.Name) and env.get(e.id) == HASHFN:
            return lname(e.id)
        return None

    def bind(self, txt):
        if self.binds is None:
            raise TranslateError(f"raising primitive in an unsupported position: {txt[:60]}")
        self.fresh += 1
        v = f"r{self.fresh}"
        self.binds.append((v, txt))
        return v

    def nat_arg(self, e, env, what):
        s, t = self.expr(e, env)
        if t == LIT:
            if s < 0:
                raise TranslateError(f"negative literal as {what}")
            return self.cast_lit(s, NAT), NAT
        if t != NAT:
            raise TranslateError(f"{what} of type {t}")
        return s, t

    def kw_check(self, e, expect):
        got = {k.arg: (k.value.value if isinstance(k.value, ast.Constant) else object()) for k in e.keywords}
        if got != expect:
            raise TranslateError(f"unexpected keyword arguments in {ast.unparse(e)[:60]}")

    # ------------------------------------------------------------------ expressions
    def expr(self, e, env):
        if isinstance(e, ast.Constant) and isinstance(e.value, bytes):
            return "([" + ", ".join(str(b) for b in e.value) + "] : Bytes)", BYTES
        if isinstance(e, ast.Attribute):
            h = self.is_hashfn_expr(e, env)
            if h is not None:
                return h, HASHFN
            if e.attr in ("digest_size", "block_size") and isinstance(e.value, ast.Call) and not e.value.args \
                    and not e.value.keywords:
                h = self.is_hashfn_expr(e.value.func, env)
                if h is None:
                    raise TranslateError(f".{e.attr} of a non-hash object")
                return f"{h}.{'digestSize' if e.attr == 'digest_size' else 'blockSize'}", NAT
        if isinstance(e, ast.List):
            return self.list_display(e, env)
        if isinstance(e, ast.ListComp):
            return self.comprehension(e, env)
        if isinstance(e, (ast.IfExp, ast.BoolOp)) and self.binds is not None:
            # operands of a conditional expression are not always evaluated: nothing raising may be hoisted out of them
            m = self.mark()
            r = super().expr(e, env)
            if self.mark() != m:
                raise TranslateError(f"raising primitive inside the conditional expression {ast.unparse(e)[:60]}")
            return r
        if isinstance(e, ast.BinOp):
            r = self.binop_x(e, env)
            if r is not None:
                return r
        if isinstance(e, ast.Subscript):
            r = self.subscript_x(e, env)
            if r is not None:
                return r
        return super().expr(e, env)

    def rollback(self, mark):
        if self.binds is not None:
            del self.binds[mark[0]:]
        self.fresh = mark[1]

    def mark(self):
        return (None if self.binds is None else len(self.binds)), self.fresh

    def peek_type(self, e, env):
        m = self.mark()
        try:
            _, t = self.expr(e, env)
        finally:
            self.rollback(m)
        return t

    def list_display(self, e, env):
        if not e.elts:
            raise TranslateError("empty list display outside `x = []`")
        parts = [self.expr(x, env) for x in e.elts]
        if self._int_list:
            # inside FQ12([...]): a base-field element contributes its int value
            parts = [(self.elem_to_int[t].format(paren(s_)), INT) if t in self.elem_to_int else (s_, t) for s_, t in parts]
        tys = {t for _, t in parts if t not in (LIT, BINT)}
        if not tys or tys <= {INT, NAT}:
            if tys == {NAT} and not self._int_list:
                strs = [self.cast_lit(s, NAT) if t == LIT else self.cast_bint(s, NAT) if t == BINT else s for s, t in parts]
                return "[" + ", ".join(strs) + "]", LIST(NAT)
            strs = []
            for v, t in parts:
                if t == LIT:
                    v = self.cast_lit(v, INT)
                elif t == BINT:
                    v = self.cast_bint(v, INT)
                elif t == NAT:
                    v = f"(({v} : Nat) : Int)"
                strs.append(v)
            return "[" + ", ".join(strs) + "]", LIST(INT)
        if len(tys) != 1 or any(t in (LIT, BINT) for _, t in parts):
            raise TranslateError(f"list display with element types {sorted(map(str, tys))}")
        t = tys.pop()
        if t in ("prop", ("none",)):
            raise TranslateError(f"list display of {t}")
        return "[" + ", ".join(s for s, _ in parts) + "]", LIST(t)

    def comprehension(self, e, env):
        """`[elt for x in it if c ..]` (also the generator inside `tuple(..)` / `list(..)`): the iterable is evaluated
        first, once, in the enclosing scope; then for every element in order the conditions and then `elt` are evaluated
        in a scope of their own (the target does not leak).  The first exception raised by `elt` ends the evaluation:
        `List.mapM` in `Except` (left to right, stops at the first error); `List.map` when nothing in `elt` can raise.
        Conditions must not be able to raise (they are then a `List.filter` applied before the map)."""
        if len(e.generators) != 1:
            raise TranslateError("comprehension with more than one `for`")
        g = e.generators[0]
        if g.is_async:
            raise TranslateError("async comprehension")
        self._range_lo = None
        it, itt = self.iterable(g.iter, env)
        lo = self._range_lo
        if not (isinstance(itt, tuple) and itt[0] == "list") or itt[1] == UNK:
            raise TranslateError(f"comprehension over {itt}")
        env2 = dict(env)
        tg = g.target
        if isinstance(tg, ast.Name):
            x = tg.id
            env2[x] = itt[1]
            binder, pat = f"({lname(x)} : {lean_type_x(itt[1])})", ""
        elif isinstance(tg, ast.Tuple) and all(isinstance(n, ast.Name) for n in tg.elts) \
                and len({n.id for n in tg.elts}) == len(tg.elts) \
                and isinstance(itt[1], tuple) and itt[1][0] == "tuple" and len(itt[1][1]) == len(tg.elts):
            if "it__" in env:
                raise TranslateError("name clash with the comprehension variable")
            x = None
            names = [n.id for n in tg.elts]
            for n, t in zip(names, itt[1][1]):
                env2[n] = t
            binder = f"(it__ : {lean_type_x(itt[1])})"
            pat = "".join(f"let {lname(n)} := {X.proj('it__', len(names), i)}; " for i, n in enumerate(names))
        else:
            raise TranslateError(f"comprehension target {ast.unparse(tg)} over {itt}")
        old_lower = self.lower.get(x)
        if x is not None:
            self.lower.pop(x, None)
            if lo is not None and itt[1] == NAT:
                self.lower[x] = lo
        outer = self.binds
        try:
            conds = []
            for c in g.ifs:
                self.binds = None      # nothing raising may be hoisted out of a condition
                conds.append(self.cond(c, env2))
            self.binds = [] if outer is not None else None
            body, tb = self.expr(e.elt, env2)
            inner = self.binds
        finally:
            self.binds = outer
            if x is not None:
                self.lower.pop(x, None)
                if old_lower is not None:
                    self.lower[x] = old_lower
        if self._int_list and tb in self.elem_to_int:
            body, tb = self.elem_to_int[tb].format(paren(body)), INT
        if self._int_list and tb in (LIT, BINT, NAT):
            body = self.cast_lit(body, INT) if tb == LIT else self.cast_bint(body, INT) if tb == BINT \
                else f"(({body} : Nat) : Int)"
            tb = INT
        body, tb = self.norm_val(body, tb)
        if tb in ("prop", ("none",)) or tb == LIST(UNK):
            raise TranslateError(f"comprehension of {tb}")
        for c in conds:
            it = f"(List.filter (fun {binder} => {pat}decide {paren(c)}) {paren(it)})"
        if inner:
            lets = "".join(f"let {v} ← {txt}; " for v, txt in inner)
            return self.bind(f"(List.mapM (fun {binder} => (do {pat}{lets}pure {paren(body)} : Except PyErr _)) "
                             f"{paren(it)})"), LIST(tb)
        return f"(List.map (fun {binder} => {pat}{body}) {paren(it)})", LIST(tb)

    def binop_x(self, e, env):
        op = e.op
        if isinstance(op, ast.LShift):
            a, ta = self.expr(e.left, env)
            k = self.const_eval(e.right)
            if k is None or k < 0 or not isinstance(e.right, ast.Constant):
                raise TranslateError("shift by a non-literal")
            if ta == LIT:
                return a << k, LIT
            if ta not in (INT, NAT):
                raise TranslateError(f"<< on {ta}")
            return f"({a} * (2 : {ta}) ^ ({k} : Nat))", ta
        if isinstance(op, ast.BitXor):
            tl = self.peek_type(e.left, env)
            if tl == BYTE:
                a, _ = self.expr(e.left, env)
                b, tb = self.expr(e.right, env)
                if tb != BYTE:
                    raise TranslateError("byte ^ non-byte")
                return f"({a} ^^^ {b})", BYTE
            return None
        if isinstance(op, ast.Mult):
            tl = self.peek_type(e.left, env)
            if tl == BYTES:
                if not (isinstance(e.left, ast.Constant) and isinstance(e.left.value, bytes) and len(e.left.value) == 1):
                    raise TranslateError("bytes * n only for a one-byte literal")
                n, _ = self.nat_arg(e.right, env, "repetition count")
                return f"(List.replicate {paren(n)} ({e.left.value[0]} : UInt8))", BYTES
            if isinstance(tl, tuple) and tl[0] == "list":
                if not (isinstance(e.left, ast.List) and len(e.left.elts) == 1):
                    raise TranslateError("list * n only for a one-element display")
                a, ta = self.expr(e.left.elts[0], env)
                if ta == LIT:
                    a, ta = self.cast_lit(a, tl[1]), tl[1]
                k = self.const_eval(e.right)
                if k is None or k < 0:
                    raise TranslateError("list * n only for a constant n >= 0")
                return f"(List.replicate {k} {paren(a)})", tl
            return None
        if isinstance(op, ast.Add):
            tl = self.peek_type(e.left, env)
            if isinstance(tl, tuple) and tl[0] == "list":
                a, _ = self.expr(e.left, env)
                b, tb = self.expr(e.right, env)
                if tb != tl:
                    raise TranslateError(f"list + : {tl} vs {tb}")
                return f"({a} ++ {b})", tl
            return None
        return None

    def subscript_x(self, e, env):
        if isinstance(e.value, ast.Attribute) and e.value.attr == "coeffs" and not isinstance(e.slice, ast.Slice):
            # x.coeffs[k] for a constant k: the class fixes the number of coefficients (class invariant)
            s, t = self.expr(e.value.value, env)
            k = self.const_eval(e.slice)
            if t not in self.coeffs or k is None or not (0 <= k < self.coeffs[t][0]):
                raise TranslateError(f"unsupported coefficient access {ast.unparse(e)}")
            return self.coeffs[t][2].format(paren(s), k), self.coeff_elem.get(t, INT)
        if isinstance(e.value, ast.Subscript) and isinstance(e.value.slice, ast.Slice) and not isinstance(e.slice, ast.Slice):
            sl = e.value.slice
            if sl.upper is None and sl.step is None and sl.lower is not None and self.const_eval(sl.lower) == -1 \
                    and self.const_eval(e.slice) == 0:
                # L[-1:][0]: the last element; IndexError for the empty list
                s, t = self.expr(e.value.value, env)
                if not (isinstance(t, tuple) and t[0] == "list") or t[1] == UNK:
                    raise TranslateError(f"L[-1:][0] on {t}")
                return self.bind(f"(match List.getLast? {paren(s)} with | some v => pure v | none => throw PyErr.other)"), t[1]
        tb = self.peek_type(e.value, env)
        if isinstance(e.slice, ast.Slice):
            if isinstance(tb, tuple) and tb[0] == "list" and tb[1] != UNK:
                # a slice of a list / tuple is a NEW sequence (no aliasing); only the shapes of `seq_expr`
                return self.seq_expr(e, env)
            if tb != BYTES:
                return None
            sl = e.slice
            if sl.step is not None:
                raise TranslateError("slice with a step")
            s, _ = self.expr(e.value, env)
            if sl.lower is None and sl.upper is None:
                raise TranslateError("full slice")
            if sl.lower is None:
                hi, _ = self.nat_arg(sl.upper, env, "slice bound")
                return f"(List.take {paren(hi)} {paren(s)})", BYTES
            lo, _ = self.nat_arg(sl.lower, env, "slice bound")
            if sl.upper is None:
                return f"(List.drop {paren(lo)} {paren(s)})", BYTES
            if isinstance(sl.upper, ast.BinOp) and isinstance(sl.upper.op, ast.Add) and same_ast(sl.upper.left, sl.lower):
                # x[e : e + L]  (e is a pure natural-number expression)
                if any(isinstance(n, ast.Call) for n in ast.walk(sl.lower)):
                    raise TranslateError("slice bound with a call")
                ln, _ = self.nat_arg(sl.upper.right, env, "slice length")
                return f"(List.take {paren(ln)} (List.drop {paren(lo)} {paren(s)}))", BYTES
            hi, _ = self.nat_arg(sl.upper, env, "slice bound")
            return f"(List.take ({hi} - {lo}) (List.drop {paren(lo)} {paren(s)}))", BYTES
        if isinstance(tb, tuple) and tb[0] == "list":
            s, _ = self.expr(e.value, env)
            i, _ = self.nat_arg(e.slice, env, "list index")
            if tb[1] == UNK:
                raise TranslateError("index into a list of unknown element type")
            return self.bind(f"(match {s}[{i}]? with | some v => pure v | none => throw PyErr.other)"), tb[1]
        if tb == BYTES:
            raise TranslateError("indexing a byte string")
        return None

    def binop(self, e, env):
        # natural-number subtraction `i - c` of a loop variable with a known constant lower bound
        if isinstance(e.op, ast.Sub) and isinstance(e.left, ast.Name) and e.left.id in self.lower \
                and env.get(e.left.id) == NAT:
            c = self.const_eval(e.right)
            if c is not None and 0 <= c <= self.lower[e.left.id]:
                key = ast.unparse(e)
                added = key not in self.nonneg
                self.nonneg.add(key)
                try:
                    return super().binop(e, env)
                finally:
                    if added:
                        self.nonneg.discard(key)
        return super().binop(e, env)

    def cond(self, e, env):
        if isinstance(e, ast.Compare) and len(e.ops) == 1 and isinstance(e.ops[0], ast.In) \
                and not isinstance(e.comparators[0], ast.Tuple):
            # x in L: Python compares with `==` (first by identity, which implies `==` for these value types)
            x, tx = self.expr(e.left, env)
            L, tl = self.seq_expr(e.comparators[0], env)
            if tl != LIST(tx) or not is_field(tx):
                raise TranslateError(f"`in` on {tx} / {tl}")
            return f"(List.contains {paren(L)} {paren(x)} = true)"
        if isinstance(e, ast.Compare) and len(e.ops) == 1 and isinstance(e.ops[0], ast.NotIn) \
                and not isinstance(e.comparators[0], ast.Tuple):
            # x not in L  is  not (x in L)   (`list.__contains__` / `tuple.__contains__`: no user-defined `__contains__`)
            pos = ast.copy_location(ast.Compare(left=e.left, ops=[ast.In()], comparators=e.comparators), e)
            return f"(¬ {self.cond(pos, env)})"
        if isinstance(e, ast.BoolOp) and self.binds is not None:
            m = self.mark()
            r = super().cond(e, env)
            if self.mark() != m:
                raise TranslateError(f"raising primitive inside the short-circuit condition {ast.unparse(e)[:60]}")
            return r
        return super().cond(e, env)

    # ------------------------------------------------------------------ calls
    def call(self, e, env):
        f = e.func
        if isinstance(f, ast.Attribute) and f.attr == "index" and len(e.args) == 1 and not e.keywords:
            # L.index(x): the first position holding a value `== x`; ValueError when there is none
            L, tl = self.seq_expr(f.value, env)
            x, tx = self.expr(e.args[0], env)
            if tl != LIST(tx) or not is_field(tx):
                raise TranslateError(f".index on {tl} / {tx}")
            return self.bind(f"(if List.findIdx (fun r => r == {x}) {paren(L)} < List.length {paren(L)} "
                             f"then pure (List.findIdx (fun r => r == {x}) {paren(L)}) else throw PyErr.value)"), NAT
        if isinstance(f, ast.Name) and f.id not in env:
            if f.id in (APPEND, EXTEND):
                return self.append_call(e, env)
            if f.id == IADD:
                tn = env.get(e.args[0].id)
                if tn == BYTES or (isinstance(tn, tuple) and tn[0] == "list"):
                    return self.append_call(ast.copy_location(ast.Call(func=ast.Name(id=EXTEND, ctx=ast.Load()), args=e.args,
                                                                       keywords=[]), e), env)
                return self.expr(ast.copy_location(ast.BinOp(left=e.args[0], op=ast.Add(), right=e.args[1]), e), env)
            if f.id == SETITEM:
                # L[i] = v: v is evaluated first, then L and i; IndexError when i >= len(L)
                name = e.args[0].id
                tn = env.get(name)
                if not (isinstance(tn, tuple) and tn[0] == "list") or tn[1] == UNK:
                    raise TranslateError(f"item assignment on {name} : {tn}")
                v, tv = self.expr(e.args[2], env)
                if tv == LIT:
                    v, tv = self.cast_lit(v, tn[1]), tn[1]
                if tv != tn[1]:
                    raise TranslateError(f"{name}[..] = {tv} on {tn}")
                i, _ = self.nat_arg(e.args[1], env, "list index")
                L = lname(name)
                return self.bind(f"(if {i} < List.length {L} then pure (List.set {L} {paren(i)} {paren(v)}) "
                                 f"else throw PyErr.other)"), tn
            if f.id in self.ctors:
                ft, n, tpl = self.ctors[f.id]
                if len(e.args) != 1 or e.keywords:
                    raise TranslateError(f"{f.id}(..) with other than one argument")
                if static_len(e.args[0]) != n:
                    # FQP.__init__ raises unless there are exactly `degree` coefficients
                    raise TranslateError(f"{f.id}(..): the argument is not statically a list of {n} coefficients")
                save, self._int_list = self._int_list, True
                try:
                    s, t = self.expr(e.args[0], env)
                finally:
                    self._int_list = save
                if t != LIST(INT):
                    raise TranslateError(f"{f.id}(..) of {t}")
                return tpl.format(s), ft
            if f.id == "int" and len(e.args) == 1 and not e.keywords and self.elem_to_int:
                t = self.peek_type(e.args[0], env)
                if t in self.elem_to_int:
                    s, _ = self.expr(e.args[0], env)
                    return self.elem_to_int[t].format(paren(s)), INT
            if f.id == "len" and len(e.args) == 1 and not e.keywords:
                s, t = self.expr(e.args[0], env)
                if not (t == BYTES or (isinstance(t, tuple) and t[0] == "list")):
                    raise TranslateError(f"len of {t}")
                return f"(List.length {paren(s)})", NAT
            if f.id in ("tuple", "list") and len(e.args) == 1 and not e.keywords and isinstance(e.args[0], ast.GeneratorExp):
                # tuple(elt for x in it) / list(..): the elements of the comprehension, in order
                g0 = e.args[0]
                return self.comprehension(ast.copy_location(ast.ListComp(elt=g0.elt, generators=g0.generators), g0), env)
            if f.id == "tuple" and len(e.args) == 1 and not e.keywords:
                s, t = self.expr(e.args[0], env)
                if not (isinstance(t, tuple) and t[0] == "list") or t[1] == UNK:
                    raise TranslateError(f"tuple() of {t}")
                return s, t
            if f.id == "bytearray" and len(e.args) == 1 and not e.keywords:
                a = e.args[0]
                if isinstance(a, ast.Constant) and a.value == 0 and not isinstance(a.value, bool):
                    return "([] : Bytes)", BYTES
                s, t = self.expr(a, env)
                if t != BYTES:
                    raise TranslateError(f"bytearray() of {t}")
                return s, BYTES
            if f.id == "bytes" and len(e.args) == 1 and not e.keywords:
                return self.bytes_call(e.args[0], env)
            if f.id == "sum" and len(e.args) == 2 and not e.keywords:
                return self.sum_call(e, env)
        if isinstance(f, ast.Attribute):
            # math.ceil(a / b)
            if f.attr == "ceil" and isinstance(f.value, ast.Name) and f.value.id == "math" and "math" not in env:
                if len(e.args) != 1 or e.keywords or not (isinstance(e.args[0], ast.BinOp) and isinstance(e.args[0].op, ast.Div)):
                    raise TranslateError("math.ceil only of a quotient a / b")
                a, _ = self.nat_arg(e.args[0].left, env, "math.ceil numerator")
                b, _ = self.nat_arg(e.args[0].right, env, "math.ceil denominator")
                return f"(ceilDiv {paren(a)} {paren(b)})", NAT
            # <...>.digest()
            if f.attr == "digest" and not e.args and not e.keywords and isinstance(f.value, ast.Call):
                inner = f.value
                g = inner.func
                if isinstance(g, ast.Attribute) and g.attr == "new" and isinstance(g.value, ast.Name) \
                        and g.value.id == "hmac" and "hmac" not in env:
                    if len(inner.args) != 3 or inner.keywords:
                        raise TranslateError("hmac.new(key, msg, digestmod) expected")
                    k, tk = self.expr(inner.args[0], env)
                    m, tm = self.expr(inner.args[1], env)
                    h = self.is_hashfn_expr(inner.args[2], env)
                    if tk != BYTES or tm != BYTES or h is None:
                        raise TranslateError("hmac.new argument types")
                    return f"(hmac {h} {paren(k)} {paren(m)})", BYTES
                h = self.is_hashfn_expr(g, env)
                if h is not None:
                    if len(inner.args) != 1 or inner.keywords:
                        raise TranslateError("hash constructor with other than one argument")
                    d, td = self.expr(inner.args[0], env)
                    if td != BYTES:
                        raise TranslateError("hashing a non-bytes value")
                    return f"({h}.run {paren(d)})", BYTES
                raise TranslateError(f"unsupported .digest() receiver {ast.unparse(g)[:40]}")
            if f.attr == "to_bytes":
                self.kw_check(e, {"byteorder": "big", "signed": False})
                if len(e.args) != 1:
                    raise TranslateError("to_bytes arguments")
                x, _ = self.nat_arg(f.value, env, "to_bytes receiver")
                n, _ = self.nat_arg(e.args[0], env, "to_bytes length")
                return self.bind(f"PyEcc.i2osp {paren(x)} {paren(n)}"), BYTES
            if f.attr == "from_bytes" and isinstance(f.value, ast.Name) and f.value.id == "int" and "int" not in env:
                self.kw_check(e, {"byteorder": "big", "signed": False})
                if len(e.args) != 1:
                    raise TranslateError("from_bytes arguments")
                s, t = self.expr(e.args[0], env)
                if t != BYTES:
                    raise TranslateError("int.from_bytes of non-bytes")
                return f"(PyEcc.os2ip {paren(s)})", NAT
            if f.attr == "join" and isinstance(f.value, ast.Constant) and f.value.value == b"" and len(e.args) == 1 \
                    and not e.keywords:
                s, t = self.expr(e.args[0], env)
                if t != LIST(BYTES):
                    raise TranslateError(f"b''.join of {t}")
                return f"(List.flatten {paren(s)})", BYTES
        return super().call(e, env)

    def append_call(self, e, env):
        name = e.args[0].id
        tn = env.get(name)
        if not (tn == BYTES or (isinstance(tn, tuple) and tn[0] == "list")):
            raise TranslateError(f".append/.extend on {name} : {tn}")
        if e.func.id == EXTEND:
            v, tv = self.expr(e.args[1], env)
            if tv != tn or tn == LIST(UNK):
                raise TranslateError(f"{name}.extend({tv}) on {tn}")
            return f"({lname(name)} ++ {v})", tn
        if tn == BYTES:
            raise TranslateError("append on a byte string")
        v, tv = self.expr(e.args[1], env)
        v, tv = self.norm_val(v, tv)
        if tn[1] == UNK:
            if tv in ("prop", ("none",)) or tv == LIST(UNK):
                raise TranslateError(f"cannot infer the element type of {name}")
            self.hints[name] = tv
            raise Retry()
        if tv == NAT and tn[1] == INT:
            v, tv = f"(({v} : Nat) : Int)", INT
        if tv != tn[1]:
            raise TranslateError(f"{name}.append({tv}) on {tn}")
        return f"({lname(name)} ++ [{v}])", tn

    def bytes_call(self, a, env):
        if isinstance(a, ast.List):
            if len(a.elts) != 1:
                raise TranslateError("bytes([..]) only for a single element")
            v, _ = self.nat_arg(a.elts[0], env, "bytes([v])")
            return self.bind(f"(if {v} < 256 then pure [UInt8.ofNat {paren(v)}] else throw PyErr.value)"), BYTES
        if isinstance(a, ast.GeneratorExp):
            if len(a.generators) != 1:
                raise TranslateError("nested generator")
            g = a.generators[0]
            if g.ifs or g.is_async:
                raise TranslateError("generator with a condition")
            it = g.iter
            if not (isinstance(it, ast.Call) and isinstance(it.func, ast.Name) and it.func.id == "zip" and "zip" not in env
                    and len(it.args) == 2 and not it.keywords and isinstance(g.target, ast.Tuple)
                    and len(g.target.elts) == 2 and all(isinstance(x, ast.Name) for x in g.target.elts)):
                raise TranslateError("bytes(<generator>) only over zip(x, y)")
            x, tx = self.expr(it.args[0], env)
            y, ty = self.expr(it.args[1], env)
            if tx != BYTES or ty != BYTES:
                raise TranslateError("zip of non-bytes")
            na, nb = g.target.elts[0].id, g.target.elts[1].id
            if na == nb:
                raise TranslateError("repeated generator variable")
            env2 = dict(env)
            env2[na] = BYTE
            env2[nb] = BYTE
            m = self.mark()
            body, tbody = self.expr(a.elt, env2)
            if self.mark() != m:
                raise TranslateError("raising primitive inside a generator")
            if tbody != BYTE:
                # a general int would need the range check of bytes(): only byte-valued bodies are translated
                raise TranslateError(f"bytes(<generator of {tbody}>)")
            return f"(List.zipWith (fun {lname(na)} {lname(nb)} => {body}) {paren(x)} {paren(y)})", BYTES
        s, t = self.expr(a, env)
        if t == BYTES:
            return s, BYTES
        raise TranslateError(f"bytes() of {t}")

    def sum_call(self, e, env):
        g0, start = e.args
        if not isinstance(g0, ast.GeneratorExp) or len(g0.generators) != 1:
            raise TranslateError("sum only of a generator expression")
        g = g0.generators[0]
        if g.ifs or g.is_async:
            raise TranslateError("generator with a condition")
        it, itt, pat, env2 = self.gen_iter(g, env)
        s0, t0 = self.expr(start, env)
        if not is_field(t0):
            raise TranslateError(f"sum starting from {t0}")
        m = self.mark()
        body, tbody = self.expr(g0.elt, env2)
        if self.mark() != m:
            raise TranslateError("raising primitive inside a generator")
        if tbody != t0:
            raise TranslateError(f"sum of {tbody} onto {t0}")
        if {"acc__", "it__"} & set(env2):
            raise TranslateError("name clash with the accumulator")
        return (f"(List.foldl (fun (acc__ : {lean_type_x(t0)}) (it__ : {lean_type_x(itt)}) =>\n"
                f"    {pat}acc__ + {body}) {s0} {paren(it)})"), t0

    def gen_iter(self, g, env):
        """`for a, b in zip(A, B)` of a generator: (list text, element type, binding pattern, body env)"""
        it = g.iter
        if not (isinstance(it, ast.Call) and isinstance(it.func, ast.Name) and it.func.id == "zip" and "zip" not in env
                and len(it.args) == 2 and not it.keywords and isinstance(g.target, ast.Tuple)
                and len(g.target.elts) == 2 and all(isinstance(x, ast.Name) for x in g.target.elts)):
            raise TranslateError("generator only over zip(A, B) with a pair target")
        a, ta = self.expr(it.args[0], env)
        b, tb = self.expr(it.args[1], env)
        if not (isinstance(ta, tuple) and ta[0] == "list" and isinstance(tb, tuple) and tb[0] == "list"):
            raise TranslateError("zip of non-lists")
        na, nb = g.target.elts[0].id, g.target.elts[1].id
        if na == nb:
            raise TranslateError("repeated generator variable")
        env2 = dict(env)
        env2[na], env2[nb] = ta[1], tb[1]
        return (f"(List.zip {paren(a)} {paren(b)})", T(ta[1], tb[1]),
                f"let {lname(na)} := it__.1; let {lname(nb)} := it__.2; ", env2)

    # ------------------------------------------------------------------ statements
    def has_raising_call(self, body):
        if super().has_raising_call(body):
            return True
        for st in body:
            for n in ast.walk(st):
                if isinstance(n, ast.Call) and isinstance(n.func, ast.Attribute) and n.func.attr == "to_bytes":
                    return True
                if isinstance(n, ast.Call) and isinstance(n.func, ast.Name) and n.func.id == "bytes" and n.args \
                        and isinstance(n.args[0], ast.List):
                    return True
                if isinstance(n, ast.Call) and isinstance(n.func, ast.Name) and n.func.id == SETITEM:
                    return True
                if isinstance(n, ast.Call) and isinstance(n.func, ast.Attribute) and n.func.attr == "index":
                    return True
                if isinstance(n, ast.Subscript) and not isinstance(n.slice, ast.Slice) and isinstance(n.ctx, ast.Load):
                    b = n.value
                    if isinstance(b, ast.Attribute) and b.attr == "coeffs":
                        continue
                    if not isinstance(b, ast.Name):
                        return True
                    if b.id.startswith("it__"):
                        continue      # projection of a loop tuple
                    t = self._env.get(b.id, self.consts.get(b.id))
                    if t is None or (isinstance(t, tuple) and t[0] == "list"):
                        return True
        return False

    def assigned_names(self, body):
        out = []

        def add(n):
            if n not in out:
                out.append(n)
        for st in body:
            if isinstance(st, ast.For):
                for x in ast.walk(st.target):
                    if isinstance(x, ast.Name):
                        add(x.id)
                sub = self.assigned_names(st.body)
                if sub is None or st.orelse:
                    return None
                for n in sub:
                    add(n)
            else:
                sub = super().assigned_names([st])
                if sub is None:
                    return None
                for n in sub:
                    add(n)
        return out

    def reads_before_write(self, body, name):
        for i, st in enumerate(body):
            if isinstance(st, ast.For):
                tnames = {x.id for x in ast.walk(st.target) if isinstance(x, ast.Name)}
                if any(isinstance(x, ast.Name) and x.id == name and isinstance(x.ctx, ast.Load) for x in ast.walk(st.iter)):
                    return True
                # (the loop's own target is written by the loop before its body can read it)
                if name not in tnames and self.reads_before_write(st.body, name):
                    return True
                continue   # an assignment inside a loop is not definite: keep scanning
            r = super().reads_before_write([st], name)
            if r:
                return True
            if isinstance(st, ast.Assign):
                tg = st.targets[0]
                tnames = [tg.id] if isinstance(tg, ast.Name) else [x.id for x in getattr(tg, "elts", []) if isinstance(x, ast.Name)]
                if name in tnames:
                    return False
        return False

    def maybe_unassigned(self, body, name):
        return super().maybe_unassigned([st for st in body if not isinstance(st, ast.For)], name)

    def iterable(self, e, env):
        if isinstance(e, ast.Call) and isinstance(e.func, ast.Name) and e.func.id == "range" and "range" not in env \
                and len(e.args) in (1, 2) and not e.keywords:
            if len(e.args) == 1:
                lo, hi = 0, e.args[0]
            else:
                lo, hi = self.const_eval(e.args[0]), e.args[1]
                if lo is None or not isinstance(e.args[0], ast.Constant):
                    # range(a, b) for natural-number expressions a, b: a, a+1, .., b-1 (empty when b <= a)
                    a_, _ = self.nat_arg(e.args[0], env, "range start")
                    h, _ = self.nat_arg(hi, env, "range bound")
                    self._range_lo = None
                    return f"(List.range' {paren(a_)} ({h} - {a_}))", LIST(NAT)
                if lo < 0:
                    raise TranslateError("range with a negative start")
            h, _ = self.nat_arg(hi, env, "range bound")
            self._range_lo = lo
            if lo == 0:
                return f"(List.range {paren(h)})", LIST(NAT)
            return f"(List.range' {lo} ({h} - {lo}))", LIST(NAT)
        if isinstance(e, ast.Call) and isinstance(e.func, ast.Name) and e.func.id == "enumerate" and "enumerate" not in env \
                and len(e.args) == 1 and not e.keywords:
            s, t = self.seq_expr(e.args[0], env)
            return f"(List.zip (List.range (List.length {paren(s)})) {paren(s)})", LIST(T(NAT, t[1]))
        if isinstance(e, (ast.Call, ast.Subscript)):
            r = self.seq_expr(e, env, strict=False)
            if r is not None:
                return r
        s, t = super().iterable(e, env)
        if t == BYTES:
            return s, LIST(BYTE)
        return s, t

    def seq_expr(self, e, env, strict=True):
        """a list-valued expression that is only iterated over: a list name, `reversed(L)`, `L[:-1]`"""
        if isinstance(e, ast.Call) and isinstance(e.func, ast.Name) and e.func.id == "reversed" and "reversed" not in env \
                and len(e.args) == 1 and not e.keywords:
            s, t = self.seq_expr(e.args[0], env)
            return f"(List.reverse {paren(s)})", t
        if isinstance(e, ast.Subscript) and isinstance(e.slice, ast.Slice) and e.slice.lower is None and e.slice.step is None \
                and e.slice.upper is not None and self.const_eval(e.slice.upper) == -1:
            s, t = self.seq_expr(e.value, env)
            return f"(List.dropLast {paren(s)})", t
        if isinstance(e, ast.Subscript) and isinstance(e.slice, ast.Slice) and e.slice.lower is None and e.slice.upper is None \
                and e.slice.step is not None and self.const_eval(e.slice.step) == 2:
            s, t = self.seq_expr(e.value, env)
            return f"(everyOther {paren(s)})", t       # L[::2]: the entries at even positions
        if isinstance(e, ast.Name):
            s, t = self.expr(e, env)
            if isinstance(t, tuple) and t[0] == "list" and t[1] != UNK:
                return s, t
        if strict:
            raise TranslateError(f"unsupported sequence expression {ast.unparse(e)[:60]}")
        return None

    def for_loop_core(self, st, rest, env, fn, cur):
        """`ExtraTranslator.for_loop` with ONE change: the loop-carried variables are listed in the order of their first
        assignment in the loop body (the base class sorts them by NAME, so that renaming a local could permute the
        components of the state tuple)"""
        if st.orelse or not isinstance(st.target, ast.Name):
            raise TranslateError(f"{fn.name}: unsupported for loop")
        it, itt = self.iterable(st.iter, env)
        if not (isinstance(itt, tuple) and itt[0] == "list"):
            raise TranslateError(f"{fn.name}: for loop over {itt}")
        if self.core_abs is not None and not any(isinstance(n, ast.Name) and n.id in env for n in ast.walk(st.iter)) \
                and all(n.id in self.consts or n.id == "range" for n in ast.walk(st.iter) if isinstance(n, ast.Name)):
            it, itt = self.lift(st.iter, it, itt)
        x = st.target.id
        assigned = self.assigned_names(st.body)
        if assigned is None:
            raise TranslateError(f"{fn.name}: for body must consist of assignments and ifs of assignments")
        if x in assigned:
            raise TranslateError(f"{fn.name}: loop variable reassigned")
        used_after = {n.id for s in rest for n in ast.walk(s) if isinstance(n, ast.Name)}
        if x in used_after:
            raise TranslateError(f"{fn.name}: loop variable used after the loop")
        state = []
        for n in assigned:
            carried = self.reads_before_write(st.body, n)
            live = n in used_after
            definite = not self.maybe_unassigned(st.body, n)
            if carried or (live and not definite):
                if n not in env:
                    raise TranslateError(f"{fn.name}: loop-carried variable {n} undefined before the loop")
                state.append(n)
            elif live:
                # assigned unconditionally in every iteration and used afterwards: its value after the
                # loop depends on the loop having run at least once
                raise TranslateError(f"{fn.name}: variable {n} defined only inside the loop is used after it")
        # (no `state.sort()`: `assigned` is in order of first assignment)
        if not state:
            raise TranslateError(f"{fn.name}: loop without loop-carried state")
        sty = T(*[env[n] for n in state]) if len(state) > 1 else env[state[0]]
        pat = "(" + ", ".join(lname(n) for n in state) + ")" if len(state) > 1 else lname(state[0])
        env_body = dict(env)
        env_body[x] = itt[1]
        mname = f"__LOOP_STATE_{len(self.markers)}__"
        marker = ast.Return(value=ast.Name(id=mname, ctx=ast.Load()))
        raising = self.has_raising_call(st.body)
        if raising and not fn.raises:
            raise TranslateError(f"{fn.name}: raising call in a loop of a non-raising function")
        loopfn = Fn(fn.name + ".<loop>", [], sty, raising)
        self.markers[mname] = (list(state), [env[n] for n in state])
        outer_lift_used, self.lift_used = self.lift_used, set()
        try:
            body_txt = self.block(list(st.body) + [marker], env_body, loopfn, cur, tail_state=state)
        finally:
            del self.markers[mname]
            body_lifts = [x for x in self.lifted if x[0] in self.lift_used]
            self.lift_used = outer_lift_used | self.lift_used
        do = " do" if raising else ""
        if cur.get("outline_loops"):
            # the loop body becomes a top-level definition taking the free local variables as parameters
            used = []
            for s_ in st.body:
                for n_ in ast.walk(s_):
                    if isinstance(n_, ast.Name) and n_.id in env and n_.id not in state and n_.id != x \
                            and n_.id not in used and n_.id not in assigned:
                        used.append(n_.id)
            # a name assigned in the body but read before (conditionally) being assigned would be loop-carried,
            # hence in `state`; everything else that is read comes from outside
            k = len(cur["aux_defs"])
            aux_name = f"{fn.lean_name.split('.')[0]}_loop{k}"
            pdecl = " ".join([f"({lname(n)} : {lean_type_x(env[n])})" for n in used]
                             + [f"({pn} : {lean_type_x(pt)})" for pn, pt, _, _ in body_lifts])
            sdecl = f"(st : {lean_type_x(sty)})" if len(state) > 1 else f"({pat} : {lean_type_x(sty)})"
            rty = f"Except PyErr ({lean_type_x(sty)})" if raising else lean_type_x(sty)
            inner = (f"let {pat} := st\n" if len(state) > 1 else "") + body_txt
            cur["aux_defs"].append(
                f"/- body of the `for` loop at line {st.lineno} of `{fn.name}`; loop-carried state: {pat} -/\n"
                f"def {aux_name} {pdecl} {sdecl} ({lname(x)} : {lean_type_x(itt[1])}) : {rty} :={do}\n" + indent(inner, 2))
            lam = " ".join([aux_name] + [lname(n) for n in used] + [pn for pn, _, _, _ in body_lifts])
        elif len(state) > 1:
            lam = (f"fun (st : {lean_type_x(sty)}) {lname(x)} =>{do}\n" + indent(f"let {pat} := st\n" + body_txt, 4))
        else:
            lam = (f"fun ({pat} : {lean_type_x(sty)}) {lname(x)} =>{do}\n" + indent(body_txt, 4))
        if raising:
            line = f"let {pat} ← List.foldlM ({lam}) {pat} {paren(it)}\n"
        else:
            line = f"let {pat} := List.foldl ({lam}) {pat} {paren(it)}\n"
        return line + self.block(rest, env, fn, cur)

    def for_loop(self, st, rest, env, fn, cur):
        self._env = env
        self._range_lo = None
        if isinstance(st.target, ast.Name):
            # a constant lower bound of the loop variable justifies `i - c`
            m = self.mark()
            try:
                self.iterable(st.iter, env)
            finally:
                self.rollback(m)
            lo = self._range_lo
            x = st.target.id
            if lo is not None:
                old = self.lower.get(x)
                self.lower[x] = lo
                try:
                    return self.for_loop_core(st, rest, env, fn, cur)
                finally:
                    if old is None:
                        del self.lower[x]
                    else:
                        self.lower[x] = old
        return self.for_loop_core(st, rest, env, fn, cur)

    def block(self, body, env, fn, cur, tail_state=None):
        if body:
            st = body[0]
            if isinstance(st, ast.Assign) and len(st.targets) == 1 and isinstance(st.targets[0], ast.Name) \
                    and isinstance(st.value, ast.List) and not st.value.elts:
                n = st.targets[0].id
                t = self.hints.get(n, UNK)
                env2 = dict(env)
                env2[n] = LIST(t)
                ty = "_" if t == UNK else lean_type_x(t)
                return (f"let {lname(n)} := ([] : List ({ty}))\n"
                        + self.block(body[1:], env2, fn, cur, tail_state=tail_state))
            if isinstance(st, ast.For):
                self._env = env
            if isinstance(st, ast.If) and not st.orelse and is_none_test(st.test) and X.terminates(st.body):
                x = st.test.left.id
                tx = env.get(x)
                if x in self.never_none and tx is not None and not (isinstance(tx, tuple) and tx[0] == "option"):
                    # `if pt is None: return ..` on a parameter declared as a (non-Optional) point: dead branch
                    return self.block(body[1:], env, fn, cur, tail_state=tail_state)
                if isinstance(tx, tuple) and tx[0] == "option" and not fn.raises:
                    env_some = dict(env)
                    env_some[x] = tx[1]
                    a = self.block(st.body, dict(env), fn, cur)
                    b = self.block(body[1:], env_some, fn, cur)
                    return f"match {lname(x)} with\n| none =>\n{indent(a)}\n| some {lname(x)} =>\n{indent(b)}"
        return super().block(body, env, fn, cur, tail_state=tail_state)

    def ret_stmt(self, value, env, fn):
        if fn.raises and isinstance(fn.ret, tuple) and fn.ret[0] == "option" \
                and not (isinstance(value, ast.Constant) and value.value is None) \
                and not (isinstance(value, ast.Name) and value.id in self.markers):
            t = self.peek_type(value, env)
            if t == fn.ret[1]:
                pre, s, t, _ = self.hexpr(value, env, fn)
                return pre + f"return (some {paren(s)})"
        if not fn.raises and isinstance(fn.ret, tuple) and fn.ret[0] == "option" \
                and not (isinstance(value, ast.Constant) and value.value is None) \
                and not (isinstance(value, ast.Name) and value.id in self.markers):
            t = self.peek_type(value, env)
            if not (isinstance(t, tuple) and t[0] in ("option", "none")):
                # a plain value returned where Optional[..] is declared
                inner = Fn(fn.name, fn.params, fn.ret[1], False, None, lean_name=fn.lean_name)
                return "some " + paren(super().ret_stmt(value, env, inner))
        return super().ret_stmt(value, env, fn)

    # ------------------------------------------------------------------ functions
    def check_aliasing(self, node, mutated):
        """a list that is mutated in place must be a local variable whose value never escapes by reference"""
        params = {a.arg for a in node.args.args}
        parent = {}
        for p in ast.walk(node):
            for c in ast.iter_child_nodes(p):
                parent[c] = p
        for n in ast.walk(node):
            if isinstance(n, ast.Assign) and len(n.targets) == 1 and isinstance(n.targets[0], ast.Name) \
                    and n.targets[0].id in mutated:
                v = n.value
                if isinstance(v, ast.Name) or isinstance(v, (ast.IfExp, ast.Subscript, ast.Attribute)):
                    raise TranslateError(f"{node.name}: mutated list {n.targets[0].id} is bound to a possibly shared value")
            if isinstance(n, (ast.Lambda, ast.FunctionDef)) and n is not node:
                raise TranslateError(f"{node.name}: nested function")
            if not (isinstance(n, ast.Name) and n.id in mutated and isinstance(n.ctx, ast.Load)):
                continue
            if n.id in params:
                raise TranslateError(f"{node.name}: parameter {n.id} is mutated in place")
            p = parent[n]
            ok = False
            if isinstance(p, ast.Subscript) and p.value is n:
                ok = True
            elif isinstance(p, ast.BinOp) and isinstance(p.op, ast.Add):
                ok = True
            elif isinstance(p, ast.Call) and isinstance(p.func, ast.Name):
                if p.func.id in (APPEND, EXTEND, SETITEM, IADD) and p.args[0] is n:
                    ok = True
                elif p.func.id in (EXTEND, IADD):
                    ok = True     # elements are copied
                elif p.func.id in ("tuple", "len", "bytes", "bytearray") or p.func.id in self.copying:
                    ok = True
            elif isinstance(p, ast.Call) and isinstance(p.func, ast.Attribute) and p.func.attr == "join":
                ok = True
            if not ok:
                raise TranslateError(f"{node.name}: mutated list {n.id} escapes in {ast.unparse(p)[:60]}")

    def function(self, node, src_lines, path, **kw):
        for n in ast.walk(node):
            if isinstance(n, ast.Name) and n.id in (APPEND, EXTEND, SETITEM, IADD):
                raise TranslateError("reserved name")
        mt = _Mutations()
        node2 = copy.deepcopy(node)
        if self.hashparam is not None:
            # `hashlib.sha256` -> the explicit parameter (as a name, so that outlined loop bodies take it as an argument)
            bound = {a.arg for a in node.args.args} | {n.id for n in ast.walk(node) if isinstance(n, ast.Name)
                                                      and isinstance(n.ctx, ast.Store)}
            if "hashlib" in bound or self.hashparam in bound or \
                    any(isinstance(n, ast.Name) and n.id == self.hashparam for n in ast.walk(node)):
                raise TranslateError(f"{node.name}: `hashlib` or `{self.hashparam}` is a local name")
            hp = self.hashparam

            class _H(ast.NodeTransformer):
                def visit_Attribute(self, n):
                    if isinstance(n.value, ast.Name) and n.value.id == "hashlib" and n.attr == "sha256":
                        return ast.copy_location(ast.Name(id=hp, ctx=ast.Load()), n)
                    return self.generic_visit(n)
            node2 = _H().visit(node2)
        if any(isinstance(n, ast.Name) and n.id.startswith("it__") for n in ast.walk(node)):
            raise TranslateError("reserved name")
        node2 = _ForTargets().visit(node2)
        node2 = mt.visit(node2)
        node2 = _ListAsTuple(node2, mt.mutated).visit(node2)
        ast.fix_missing_locations(node2)
        self.check_aliasing(node2, mt.mutated)
        self.mutated = mt.mutated
        self.hints = {}
        for _ in range(8):
            try:
                txt = super().function(node2, src_lines, path, **kw)
                if "List (_)" in txt or UNK in txt:
                    raise TranslateError(f"{node.name}: a list's element type was never determined")
                return txt
            except Retry:
                continue
        raise TranslateError(f"{node.name}: list element types do not stabilise")
