#!/usr/bin/env python3
"""
Mutation self-test of the tie theorems (lean/PyEcc/Props/Tie.lean).

For every entry of MUTATIONS: copy the repository, replace ONE occurrence of a token inside the named
function, regenerate Gen/Extra*.lean from the mutated tree, and check that `lake build
PyEcc.Props.Tie` now FAILS (either the translator refuses the function, or the generated file /
the tie theorem no longer compiles).  Finally regenerate from the pristine tree and check that the
build succeeds again.

  tie_selftest.py --repo /repo --lean /path/to/lean [--only NAME] [--work /tmp/tie_selftest]
"""
import argparse
import json
import os
import re
import shutil
import subprocess
import sys
import time

HERE = os.path.dirname(os.path.abspath(__file__))

# (id, file, function, old text, new text, occurrence index within the function's source)
MUTATIONS = [
    ("privtopub-G", "py_ecc/secp256k1/secp256k1.py", "privtopub", "multiply(G,", "multiply((Gx, Gx),", 0),
    ("sign-27", "py_ecc/secp256k1/secp256k1.py", "ecdsa_raw_sign", "27 +", "28 +", 0),
    ("sign-lt", "py_ecc/secp256k1/secp256k1.py", "ecdsa_raw_sign", "s * 2 < N", "s * 2 <= N", 1),
    ("sign-z", "py_ecc/secp256k1/secp256k1.py", "ecdsa_raw_sign", "(z + r *", "(z - r *", 0),
    ("sign-nonce-args", "py_ecc/secp256k1/secp256k1.py", "ecdsa_raw_sign", "deterministic_generate_k(msghash, priv)",
     "deterministic_generate_k(priv, msghash)", 0),
    ("recover-28", "py_ecc/secp256k1/secp256k1.py", "ecdsa_raw_recover", "(27, 28)", "(27, 29)", 0),
    ("recover-beta", "py_ecc/secp256k1/secp256k1.py", "ecdsa_raw_recover", "(P + 1) // 4", "(P + 1) // 2", 0),
    ("recover-guard", "py_ecc/secp256k1/secp256k1.py", "ecdsa_raw_recover", "not (r % N) or not (s % N)",
     "not (r % N)", 0),
    ("recover-Nz", "py_ecc/secp256k1/secp256k1.py", "ecdsa_raw_recover", "(N - z) % N", "z % N", 0),
    ("recover-order", "py_ecc/secp256k1/secp256k1.py", "ecdsa_raw_recover", "jacobian_add(Gz, XY)", "jacobian_add(XY, Gz)", 0),
    # --- pairings
    ("optbls-pairing-b", "py_ecc/optimized_bls12_381/optimized_pairing.py", "pairing", "is_on_curve(Q, b2)", "is_on_curve(Q, b)", 0),
    ("optbls-pairing-idx", "py_ecc/optimized_bls12_381/optimized_pairing.py", "pairing", "P[-1] == (P[-1].zero())", "P[0] == (P[0].zero())", 0),
    ("optbls-pairing-or", "py_ecc/optimized_bls12_381/optimized_pairing.py", "pairing", ".zero()) or Q", ".zero()) and Q", 0),
    ("optbls-pairing-fe", "py_ecc/optimized_bls12_381/optimized_pairing.py", "pairing", "final_exponentiate=final_exponentiate", "final_exponentiate=True", 0),
    ("optbls-pairing-exc", "py_ecc/optimized_bls12_381/optimized_pairing.py", "pairing", 'ValueError("Invalid input - point P', 'TypeError("Invalid input - point P', 0),
    ("optbls-pairing-one", "py_ecc/optimized_bls12_381/optimized_pairing.py", "pairing", "return FQ12.one()", "return FQ12.zero()", 0),
    ("optbls-fe-exp", "py_ecc/optimized_bls12_381/optimized_pairing.py", "final_exponentiate", "field_modulus**4", "field_modulus**3", 0),
    ("optbls-fe-chain", "py_ecc/optimized_bls12_381/optimized_pairing.py", "final_exponentiate", "exp_by_p(exp_by_p(exp_by_p(exp_by_p(exp_by_p(exp_by_p(p2))))))", "exp_by_p(exp_by_p(exp_by_p(exp_by_p(exp_by_p(p2)))))", 0),
    ("optbls-fe-div", "py_ecc/optimized_bls12_381/optimized_pairing.py", "final_exponentiate", "/ p2", "* p2", 0),
    ("optbn-pairing-one", "py_ecc/optimized_bn128/optimized_pairing.py", "pairing", "(Q[-1].zero())", "(Q[-1].one())", 0),
    ("optbn-pairing-guard", "py_ecc/optimized_bn128/optimized_pairing.py", "pairing", "if not is_on_curve(Q, b2)", "if is_on_curve(Q, b2)", 0),
    ("optbn-pairing-cast", "py_ecc/optimized_bn128/optimized_pairing.py", "pairing", "twist(Q), cast_point_to_fq12(P)", "cast_point_to_fq12(P), twist(Q)", 0),
    ("optbn-fe", "py_ecc/optimized_bn128/optimized_pairing.py", "final_exponentiate", "- 1", "+ 1", 0),
    ("refbls-pairing-guard", "py_ecc/bls12_381/bls12_381_pairing.py", "pairing", "if not is_on_curve(P, b):", "if is_on_curve(P, b):", 0),
    ("refbls-pairing-twist", "py_ecc/bls12_381/bls12_381_pairing.py", "pairing", "twist(Q)", "Q", 0),
    ("refbls-fe", "py_ecc/bls12_381/bls12_381_pairing.py", "final_exponentiate", "// curve_order", "// field_modulus", 0),
    ("refbn-pairing-exc", "py_ecc/bn128/bn128_pairing.py", "pairing", 'ValueError("Invalid input - point Q', 'TypeError("Invalid input - point Q', 0),
    ("refbn-fe", "py_ecc/bn128/bn128_pairing.py", "final_exponentiate", "**12", "**6", 0),
    # --- SSWU, cofactor clearing, hash_to_curve
    ("sqrtfq-exp", "py_ecc/optimized_bls12_381/optimized_swu.py", "sqrt_division_FQ", "v**2", "v**3", 0),
    ("sqrtfq-sub", "py_ecc/optimized_bls12_381/optimized_swu.py", "sqrt_division_FQ", "* v - u", "* v + u", 0),
    ("swug1-exc", "py_ecc/optimized_bls12_381/optimized_swu.py", "optimized_swu_G1", "ISO_11_Z * ISO_11_A", "ISO_11_A * ISO_11_Z", 0),
    ("swug1-b", "py_ecc/optimized_bls12_381/optimized_swu.py", "optimized_swu_G1", "(ISO_11_B * v)", "(ISO_11_A * v)", 0),
    ("swug1-cube", "py_ecc/optimized_bls12_381/optimized_swu.py", "optimized_swu_G1", "t**3 * SQRT", "t**2 * SQRT", 0),
    ("swug1-sgn", "py_ecc/optimized_bls12_381/optimized_swu.py", "optimized_swu_G1", "t.sgn0 != y.sgn0", "t.sgn0 == y.sgn0", 0),
    ("swug1-ret", "py_ecc/optimized_bls12_381/optimized_swu.py", "optimized_swu_G1", "return numerator, y, denominator", "return numerator, y, v", 0),
    ("sqrtfq2-7", "py_ecc/optimized_bls12_381/optimized_swu.py", "sqrt_division_FQ2", "v**7", "v**6", 0),
    ("sqrtfq2-not", "py_ecc/optimized_bls12_381/optimized_swu.py", "sqrt_division_FQ2", " and not is_valid_root", "", 0),
    ("sqrtfq2-init", "py_ecc/optimized_bls12_381/optimized_swu.py", "sqrt_division_FQ2", "result = gamma", "result = temp1", 0),
    ("sqrtfq2-roots", "py_ecc/optimized_bls12_381/optimized_swu.py", "sqrt_division_FQ2", "roots = POSITIVE_EIGHTH_ROOTS_OF_UNITY", "roots = POSITIVE_EIGHTH_ROOTS_OF_UNITY[1:]", 0),
    ("swug2-eta", "py_ecc/optimized_bls12_381/optimized_swu.py", "optimized_swu_G2", "eta * sqrt_candidate", "eta + sqrt_candidate", 1),
    ("swug2-cond", "py_ecc/optimized_bls12_381/optimized_swu.py", "optimized_swu_G2", "and not success and not success_2", "and not success_2", 0),
    ("swug2-raise", "py_ecc/optimized_bls12_381/optimized_swu.py", "optimized_swu_G2", "raise Exception(", "raise ValueError(", 0),
    ("swug2-num", "py_ecc/optimized_bls12_381/optimized_swu.py", "optimized_swu_G2", "numerator = numerator * iso_3_z_t2", "numerator = numerator * t2", 0),
    ("swug2-etas", "py_ecc/optimized_bls12_381/optimized_swu.py", "optimized_swu_G2", "etas = ETAS", "etas = POSITIVE_EIGHTH_ROOTS_OF_UNITY", 0),
    ("clear-g1", "py_ecc/optimized_bls12_381/optimized_clear_cofactor.py", "multiply_clear_cofactor_G1", "H_EFF_G1", "H_EFF_G2", 0),
    ("clear-g2", "py_ecc/optimized_bls12_381/optimized_clear_cofactor.py", "multiply_clear_cofactor_G2", "H_EFF_G2", "H_EFF_G1", 0),
    ("h2c-map-g1", "py_ecc/bls/hash_to_curve.py", "map_to_curve_G1", "iso_map_G1(x, y, z)", "iso_map_G1(x, z, y)", 0),
    ("h2c-map-g2", "py_ecc/bls/hash_to_curve.py", "map_to_curve_G2", "(x, y, z) = ", "(y, x, z) = ", 0),
    ("h2c-clear-g1", "py_ecc/bls/hash_to_curve.py", "clear_cofactor_G1", "return multiply_clear_cofactor_G1(p)", "return p", 0),
    ("h2c-clear-g2", "py_ecc/bls/hash_to_curve.py", "clear_cofactor_G2", "multiply_clear_cofactor_G2", "multiply_clear_cofactor_G1", 0),
    ("h2c-hash-g1-count", "py_ecc/bls/hash_to_curve.py", "hash_to_G1", "2, DST", "3, DST", 0),
    ("h2c-hash-g1-add", "py_ecc/bls/hash_to_curve.py", "hash_to_G1", "add(q0, q1)", "add(q0, q0)", 0),
    ("h2c-hash-g2-nocl", "py_ecc/bls/hash_to_curve.py", "hash_to_G2", "p = clear_cofactor_G2(r)", "p = r", 0),
    ("h2c-hash-g2-order", "py_ecc/bls/hash_to_curve.py", "hash_to_G2", "hash_to_field_FQ2(message, 2, DST, hash_function)", "hash_to_field_FQ2(DST, 2, message, hash_function)", 0),
    # --- subgroup check, point compression
    ("subgroup-order", "py_ecc/bls/g2_primitives.py", "subgroup_check", "multiply(P, curve_order)", "multiply(P, curve_order - 1)", 0),
    ("subgroup-isinf", "py_ecc/bls/g2_primitives.py", "subgroup_check", "return is_inf(multiply(P, curve_order))", "return not is_inf(multiply(P, curve_order))", 0),
    ("flags-383", "py_ecc/bls/point_compression.py", "get_flags", ">> 383", ">> 384", 0),
    ("flags-order", "py_ecc/bls/point_compression.py", "get_flags", "return c_flag, b_flag, a_flag", "return c_flag, a_flag, b_flag", 0),
    ("flags-mask", "py_ecc/bls/point_compression.py", "get_flags", "(z >> 381) & 1", "(z >> 381) & 3", 0),
    ("inf-and", "py_ecc/bls/point_compression.py", "is_point_at_infinity", "== 0) and (", "== 0) or (", 0),
    ("inf-pow", "py_ecc/bls/point_compression.py", "is_point_at_infinity", "POW_2_381", "POW_2_382", 0),
    ("inf-z2", "py_ecc/bls/point_compression.py", "is_point_at_infinity", "z2 == 0", "z2 == 1", 0),
    ("compress-flag", "py_ecc/bls/point_compression.py", "compress_G1", "(y.n * 2) // q", "(y.n * 2 + 1) // q", 0),
    ("compress-inf", "py_ecc/bls/point_compression.py", "compress_G1", "G1Compressed(POW_2_383 + POW_2_382)", "G1Compressed(POW_2_383)", 0),
    ("compress-x", "py_ecc/bls/point_compression.py", "compress_G1", "x.n + a_flag", "y.n + a_flag", 0),
    ("decompress-cflag", "py_ecc/bls/point_compression.py", "decompress_G1", "if not c_flag:", "if c_flag:", 0),
    ("decompress-bflag", "py_ecc/bls/point_compression.py", "decompress_G1", "if b_flag != is_inf_pt:", "if b_flag == is_inf_pt:", 0),
    ("decompress-aflag", "py_ecc/bls/point_compression.py", "decompress_G1", "        if a_flag:\n            raise ValueError(\"a point at infinity should have a_flag == 0\")\n", "", 0),
    ("decompress-range", "py_ecc/bls/point_compression.py", "decompress_G1", "if x >= q:", "if x > q:", 0),
    ("decompress-exp", "py_ecc/bls/point_compression.py", "decompress_G1", "(q + 1) // 4", "(q - 1) // 4", 0),
    ("decompress-check", "py_ecc/bls/point_compression.py", "decompress_G1", "if pow(y, 2, q) != (x**3 + b.n) % q:", "if pow(y, 2, q) != (x**3) % q:", 0),
    ("decompress-sign", "py_ecc/bls/point_compression.py", "decompress_G1", "(y * 2) // q != int(a_flag)", "(y * 2) // q == int(a_flag)", 0),
    ("decompress-ret", "py_ecc/bls/point_compression.py", "decompress_G1", "return (FQ(x), FQ(y), FQ(1))", "return (FQ(y), FQ(x), FQ(1))", 0),
    # --- G2 compression, byte wrappers
    ("compress2-guard", "py_ecc/bls/point_compression.py", "compress_G2", "if not is_on_curve(pt, b2):", "if is_on_curve(pt, b2):", 0),
    ("compress2-flag", "py_ecc/bls/point_compression.py", "compress_G2", "if y_im > 0 else", "if y_im >= 0 else", 0),
    ("compress2-swap", "py_ecc/bls/point_compression.py", "compress_G2", "z2 = x_re", "z2 = x_im", 0),
    ("compress2-inf", "py_ecc/bls/point_compression.py", "compress_G2", "(POW_2_383 + POW_2_382, 0)", "(POW_2_383 + POW_2_382, 1)", 0),
    ("decompress2-z2", "py_ecc/bls/point_compression.py", "decompress_G2", "is_point_at_infinity(z1, z2)", "is_point_at_infinity(z1)", 0),
    ("decompress2-range", "py_ecc/bls/point_compression.py", "decompress_G2", "    if z2 >= q:\n        raise ValueError(f\"z2 point value should be less than field modulus. Got {z2}\")\n", "", 0),
    ("decompress2-order", "py_ecc/bls/point_compression.py", "decompress_G2", "FQ2([x2, x1])", "FQ2([x1, x2])", 0),
    ("decompress2-b2", "py_ecc/bls/point_compression.py", "decompress_G2", "x**3 + b2", "x**3", 0),
    ("decompress2-sign", "py_ecc/bls/point_compression.py", "decompress_G2", "y_im == 0 and (int(y_re) * 2)", "y_im == 0 and (int(y_im) * 2)", 0),
    ("decompress2-neg", "py_ecc/bls/point_compression.py", "decompress_G2", "(y * -1)", "(y * 1)", 0),
    ("decompress2-oncurve", "py_ecc/bls/point_compression.py", "decompress_G2", "    if not is_on_curve((x, y, FQ2([1, 0])), b2):\n        raise ValueError(\"The given point is not on the twisted curve over FQ**2\")\n", "", 0),
    ("decompress2-none", "py_ecc/bls/point_compression.py", "decompress_G2", 'raise ValueError("Failed to find a modular squareroot")', 'return Z2', 0),
    ("g2sig-order", "py_ecc/bls/g2_primitives.py", "G2_to_signature", "i2osp(z1, 48) + i2osp(z2, 48)", "i2osp(z2, 48) + i2osp(z1, 48)", 0),
    ("g2sig-len", "py_ecc/bls/g2_primitives.py", "G2_to_signature", "i2osp(z1, 48)", "i2osp(z1, 96)", 0),
    ("sigg2-slice", "py_ecc/bls/g2_primitives.py", "signature_to_G2", "signature[:48]", "signature[:47]", 0),
    ("sigg2-half", "py_ecc/bls/g2_primitives.py", "signature_to_G2", "os2ip(signature[48:])", "os2ip(signature[:48])", 0),
    ("g1pk-len", "py_ecc/bls/g2_primitives.py", "G1_to_pubkey", "i2osp(z, 48)", "i2osp(z, 47)", 0),
    ("pkg1-plus", "py_ecc/bls/g2_primitives.py", "pubkey_to_G1", "G1Compressed(z)", "G1Compressed(z + 1)", 0),
    # --- the four Miller loops
    ('ml-optbls-sq', 'py_ecc/optimized_bls12_381/optimized_pairing.py', 'miller_loop', 'f_num = f_num * f_num * _n', 'f_num = f_num * _n', 0),
    ('ml-optbls-digit', 'py_ecc/optimized_bls12_381/optimized_pairing.py', 'miller_loop', 'if v == 1:', 'if v == -1:', 0),
    ('ml-optbls-slice', 'py_ecc/optimized_bls12_381/optimized_pairing.py', 'miller_loop', '[62::-1]', '[61::-1]', 0),
    ('ml-optbls-add', 'py_ecc/optimized_bls12_381/optimized_pairing.py', 'miller_loop', 'R = add(R, Q)', 'R = add(Q, R)', 0),
    ('ml-optbls-div', 'py_ecc/optimized_bls12_381/optimized_pairing.py', 'miller_loop', 'f = f_num / f_den', 'f = f_den / f_num', 0),
    ('ml-optbls-line', 'py_ecc/optimized_bls12_381/optimized_pairing.py', 'miller_loop', 'linefunc(twist_R, twist_Q, cast_P)', 'linefunc(twist_Q, twist_R, cast_P)', 0),
    ('ml-optbls-exp', 'py_ecc/optimized_bls12_381/optimized_pairing.py', 'miller_loop', '(field_modulus**12 - 1) // curve_order', '(field_modulus**12 - 1) // field_modulus', 0),
    ('ml-optbls-twist', 'py_ecc/optimized_bls12_381/optimized_pairing.py', 'miller_loop', '            R = add(R, Q)\n            twist_R = twist(R)\n', '            R = add(R, Q)\n', 0),
    ('ml-optbn-digit', 'py_ecc/optimized_bn128/optimized_pairing.py', 'miller_loop', 'elif v == -1:', 'elif v == 0:', 0),
    ('ml-optbn-neg', 'py_ecc/optimized_bn128/optimized_pairing.py', 'miller_loop', 'nQ = neg(Q)', 'nQ = Q', 0),
    ('ml-optbn-frob', 'py_ecc/optimized_bn128/optimized_pairing.py', 'miller_loop', '-Q1[1] ** field_modulus', 'Q1[1] ** field_modulus', 0),
    ('ml-optbn-f', 'py_ecc/optimized_bn128/optimized_pairing.py', 'miller_loop', 'f = f_num * _n1 * _n2 / (f_den * _d1 * _d2)', 'f = f_num * _n1 / (f_den * _d1 * _d2)', 0),
    ('ml-optbn-slice', 'py_ecc/optimized_bn128/optimized_pairing.py', 'miller_loop', '[63::-1]', '[64::-1]', 0),
    ('ml-optbn-fe', 'py_ecc/optimized_bn128/optimized_pairing.py', 'miller_loop', '    if final_exponentiate:\n        return f ** ((field_modulus**12 - 1) // curve_order)\n    else:\n        return f', '    return f ** ((field_modulus**12 - 1) // curve_order)', 0),
    ('ml-refbls-range', 'py_ecc/bls12_381/bls12_381_pairing.py', 'miller_loop', 'range(log_ate_loop_count, -1, -1)', 'range(log_ate_loop_count - 1, -1, -1)', 0),
    ('ml-refbls-bit', 'py_ecc/bls12_381/bls12_381_pairing.py', 'miller_loop', 'ate_loop_count & (2**i)', 'ate_loop_count & (2 ** (i + 1))', 0),
    ('ml-refbls-sq', 'py_ecc/bls12_381/bls12_381_pairing.py', 'miller_loop', 'f = f * f * linefunc(R, R, P)', 'f = f * linefunc(R, R, P)', 0),
    ('ml-refbls-guard', 'py_ecc/bls12_381/bls12_381_pairing.py', 'miller_loop', 'if Q is None or P is None:', 'if Q is None:', 0),
    ('ml-refbls-order', 'py_ecc/bls12_381/bls12_381_pairing.py', 'miller_loop', '            f = f * linefunc(R, Q, P)\n            R = add(R, Q)\n', '            R = add(R, Q)\n            f = f * linefunc(R, Q, P)\n', 0),
    ('ml-refbn-frob2', 'py_ecc/bn128/bn128_pairing.py', 'miller_loop', 'f = f * linefunc(R, nQ2, P)', 'f = f * linefunc(R, Q1, P)', 0),
    ('ml-refbn-noadd', 'py_ecc/bn128/bn128_pairing.py', 'miller_loop', '    R = add(R, Q1)\n', '', 0),
    ('ml-refbn-one', 'py_ecc/bn128/bn128_pairing.py', 'miller_loop', 'return FQ12.one()', 'return FQ12.zero()', 0),
    ('ml-refbn-exp', 'py_ecc/bn128/bn128_pairing.py', 'miller_loop', 'field_modulus**12 - 1', 'field_modulus**12 - 2', 0),
]


def fn_span(src, name):
    import ast
    tree = ast.parse(src)
    for n in ast.walk(tree):
        if isinstance(n, ast.FunctionDef) and n.name == name:
            return n.lineno - 1, n.end_lineno
    raise SystemExit(f"function {name} not found")


def mutate(repo_mut, rel, fn, old, new, occ):
    p = os.path.join(repo_mut, rel)
    src = open(p).read()
    lines = src.split("\n")
    a, b = fn_span(src, fn)
    seg = "\n".join(lines[a:b])
    idxs = [m.start() for m in re.finditer(re.escape(old), seg)]
    if len(idxs) <= occ:
        raise SystemExit(f"{rel}:{fn}: token {old!r} occurrence {occ} not found")
    i = idxs[occ]
    seg2 = seg[:i] + new + seg[i + len(old):]
    open(p, "w").write("\n".join(lines[:a] + seg2.split("\n") + lines[b:]))


def run(cmd, **kw):
    return subprocess.run(cmd, capture_output=True, text=True, **kw)


def regenerate(repo, gen_out):
    r = run([sys.executable, os.path.join(HERE, "gen.py"), "--repo", repo, "--out", gen_out])
    try:
        info = json.loads(r.stdout.strip().splitlines()[-1])
    except Exception:  # noqa: BLE001
        info = {"changed": [], "errors": [["gen", r.stdout[-500:] + r.stderr[-500:]]]}
    return r.returncode, info


def main():
    ap = argparse.ArgumentParser()
    ap.add_argument("--repo", default="/repo")
    ap.add_argument("--lean", required=True)
    ap.add_argument("--work", default="/tmp/tie_selftest")
    ap.add_argument("--only", default=None, help="regex on mutation ids")
    ap.add_argument("--target", default="PyEcc.Props.TieSecp PyEcc.Props.TiePairing PyEcc.Props.TieMiller PyEcc.Props.TieSwu "
                                           "PyEcc.Props.TieCofactor PyEcc.Props.TieCodec",
                    help="lake build targets (space separated)")
    a = ap.parse_args()
    gen_dir = os.path.join(a.lean, "PyEcc", "Gen")
    env = dict(os.environ)
    env["PATH"] = "/opt/veriftools/lean/bin:" + env["PATH"]
    results = []
    muts = [m for m in MUTATIONS if a.only is None or re.search(a.only, m[0])]
    for mid, rel, fn, old, new, occ in muts:
        repo_mut = os.path.join(a.work, "repo_mut")
        shutil.rmtree(repo_mut, ignore_errors=True)
        shutil.copytree(a.repo, repo_mut, ignore=shutil.ignore_patterns(".git", "__pycache__", ".tox", "*.pyc"))
        mutate(repo_mut, rel, fn, old, new, occ)
        gen_out = os.path.join(a.work, "Gen")
        shutil.rmtree(gen_out, ignore_errors=True)
        shutil.copytree(gen_dir, gen_out)
        rc, info = regenerate(repo_mut, gen_out)
        changed_extra = [c for c in info["changed"] if c.startswith("Extra")]
        verdict, detail = None, ""
        if any(e[0].startswith("Extra") for e in info["errors"]):
            verdict = "caught: translator refused"
            detail = "; ".join(f"{e[0]}: {e[1][:160]}" for e in info["errors"] if e[0].startswith("Extra"))
        elif not changed_extra:
            verdict = "NOT CAUGHT: generated files unchanged"
        else:
            saved = {}
            for c in changed_extra:
                dst = os.path.join(gen_dir, c + ".lean")
                saved[dst] = open(dst).read() if os.path.exists(dst) else None
                shutil.copy(os.path.join(gen_out, c + ".lean"), dst)
            t0 = time.time()
            r = run(["lake", "build"] + a.target.split(), cwd=a.lean, env=env)
            dt = time.time() - t0
            for dst, txt in saved.items():
                if txt is None:
                    os.remove(dst)
                else:
                    open(dst, "w").write(txt)
            if r.returncode != 0:
                errs = [ln for ln in (r.stdout + r.stderr).splitlines() if "error" in ln]
                verdict = f"caught: build failed ({dt:.0f}s)"
                detail = " | ".join(errs[:3])[:400]
            else:
                verdict = f"NOT CAUGHT: build succeeded ({dt:.0f}s)"
        results.append((mid, fn, old, new, verdict, detail))
        print(f"{mid:24s} {fn:24s} {old!r} -> {new!r}: {verdict}\n    {detail}", flush=True)
    # restore check
    r = run(["lake", "build"] + a.target.split(), cwd=a.lean, env=env)
    print("pristine rebuild:", "ok" if r.returncode == 0 else "FAILED\n" + r.stdout[-2000:])
    bad = [x for x in results if x[4].startswith("NOT")]
    print(json.dumps({"mutations": len(results), "caught": len(results) - len(bad), "not_caught": [x[0] for x in bad]}))
    return 1 if bad or r.returncode != 0 else 0


if __name__ == "__main__":
    sys.exit(main())
