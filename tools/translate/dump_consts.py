"""
Import py_ecc from PYTHONPATH (the working tree) in a fresh interpreter and print every
module-level constant the Lean side refers to, as JSON.

Encoding: int -> int; FQ at top level -> int, FQ inside a container -> [n]; FQP -> [c0, c1, ...];
tuple/list -> list; bytes -> hex string.
"""
import json
import math
import sys


def enc(v, top=True):
    from py_ecc.fields.field_elements import FQ as RFQ, FQP as RFQP
    from py_ecc.fields.optimized_field_elements import FQ as OFQ, FQP as OFQP
    if isinstance(v, bool):
        return v
    if isinstance(v, int):
        return v
    if isinstance(v, (RFQ, OFQ)):
        return int(v.n) if top else [int(v.n)]
    if isinstance(v, (RFQP, OFQP)):
        return [int(c) for c in v.coeffs]
    if isinstance(v, (bytes, bytearray)):
        return bytes(v).hex()
    if isinstance(v, (tuple, list)):
        return [enc(x, False) for x in v]
    if v is None:
        return None
    raise TypeError(f"cannot encode {type(v)}")


def dump():
    out = {}
    from py_ecc.fields.field_properties import field_properties as fp
    out["fields"] = {}
    for c in ("bn128", "bls12_381"):
        out["fields"][f"{c}_field_modulus"] = fp[c]["field_modulus"]
        out["fields"][f"{c}_fq2_modulus_coeffs"] = list(fp[c]["fq2_modulus_coeffs"])
        out["fields"][f"{c}_fq12_modulus_coeffs"] = list(fp[c]["fq12_modulus_coeffs"])
    import importlib
    for mod in ("bn128", "bls12_381", "optimized_bn128", "optimized_bls12_381"):
        m = importlib.import_module(f"py_ecc.{mod}.{mod}_curve" if not mod.startswith("optimized") else f"py_ecc.{mod}.optimized_curve")
        d = {}
        for k in ("field_modulus", "curve_order", "b", "b2", "b12", "G1", "G2", "G12", "w", "Z1", "Z2"):
            v = getattr(m, k)
            if v is None:
                continue
            d[k] = enc(v)
        pm = importlib.import_module(f"py_ecc.{mod}.{mod}_pairing" if not mod.startswith("optimized") else f"py_ecc.{mod}.optimized_pairing")
        for k in ("ate_loop_count", "log_ate_loop_count", "pseudo_binary_encoding", "exptable"):
            if hasattr(pm, k):
                d[k] = enc(getattr(pm, k))
        out[mod] = d
    import py_ecc.optimized_bls12_381.constants as oc
    d = {}
    for k in ("ISO_3_A", "ISO_3_B", "ISO_3_Z", "P_MINUS_9_DIV_16", "ETAS", "POSITIVE_EIGHTH_ROOTS_OF_UNITY",
              "ISO_3_MAP_COEFFICIENTS", "H_EFF_G2", "H_EFF_G1", "P_MINUS_3_DIV_4", "SQRT_MINUS_11_CUBED",
              "ISO_11_Z", "ISO_11_A", "ISO_11_B", "ISO_11_MAP_COEFFICIENTS"):
        d[k] = enc(getattr(oc, k))
    out["h2c"] = d
    import py_ecc.bls.constants as bc
    d = {}
    for k in ("G2_COFACTOR", "FQ2_ORDER", "EIGHTH_ROOTS_OF_UNITY", "POW_2_381", "POW_2_382", "POW_2_383",
              "POW_2_384", "HASH_TO_FIELD_L"):
        d[k] = enc(getattr(bc, k))
    out["blsconst"] = d
    from py_ecc.bls import ciphersuites as cs
    d = {
        "DST_basic": enc(cs.G2Basic.DST),
        "DST_aug": enc(cs.G2MessageAugmentation.DST),
        "DST_pop": enc(cs.G2ProofOfPossession.DST),
        "POP_TAG": enc(cs.G2ProofOfPossession.POP_TAG),
        "DST_base": enc(cs.BaseG2Ciphersuite.DST),
        "curve_order": cs.curve_order,
        # the length expression of KeyGen, evaluated exactly as the source writes it
        "keygen_L": math.ceil((1.5 * math.ceil(math.log2(cs.curve_order))) / 8),
    }
    out["suites"] = d
    import py_ecc.secp256k1.secp256k1 as s
    out["secp256k1"] = {k: getattr(s, k) for k in ("P", "N", "A", "B", "Gx", "Gy")}
    return out


def main():
    json.dump(dump(), sys.stdout)


if __name__ == "__main__":
    main()
