"""
py2lean_fields — extension of `py2lean_extra.ExtraTranslator` for the FIELD layer of py_ecc:
`py_ecc/utils.py` and the classes `FQ`, `FQP`, `FQ2`, `FQ12` of `py_ecc/fields/field_elements.py`
and `py_ecc/fields/optimized_field_elements.py`.

The output (`Gen/ExtraFields*.lean`) is proved EQUAL to the hand-written model (`Model/Fq.lean`,
`Model/Fqp.lean`) in `Props/TieFields*.lean`.

What is new with respect to `ExtraTranslator` (everything not understood still raises `TranslateError`):

  * METHODS of classes.  A class is described by a `ClassInfo`: its class-level attributes become
    explicit leading parameters of every generated function (`field_modulus`, `MODULUS_COEFFS`), its
    instance attributes are read off the `self.X = ...` statements of `__init__`.  An object with the
    single instance attribute `n` (class `FQ`) is represented by the VALUE of that attribute (a Lean
    `Int`, translator type `FQT`); an object with several attributes (`FQP`) by a generated Lean
    `structure` with one field per attribute.
  * `isinstance(x, C)` / `hasattr(self, "<class attribute>")` are evaluated STATICALLY from the
    translator type of `x`; one Lean function is emitted per operand kind (`add_fq` for an `FQ`
    operand, `add_int` for an `int` operand).  The branch that is not taken is not translated.
  * operators and method calls on objects are dispatched BY OPERAND TYPE to the generated method
    (`x + y` with `x, y : FQ` is `FQ.add_fq field_modulus x y`; with ints it is Lean's `+`), so the
    modular reduction of `FQ` arithmetic comes from the operand type, never from a table.
  * `type(self)(e)`, `cls(e)`, `self.<class alias>(e)` are calls of the generated constructor of the
    right operand kind.
  * lists: displays, `[e] * n`, `l1 + l2`, `len`, `l[i]` (`getI`), `l[:k]`, comprehensions
    (`List.map` / `List.zipWith` / `List.filter`), `zip`, `enumerate`, `range`, `tuple()`/`list()`;
    IN-PLACE UPDATES `b[k] op= v` (-> `updAt b k (fun x => x op v)`), `b.pop()`
    (-> `b.getLast?.getD 0` and `b.dropLast`), inside (nested) `for` loops whose state is the list;
    a mutated list must be a fresh local list that is never aliased.
  * `while` loops with arbitrary (also raising) bodies -> a fuelled auxiliary recursion
    (`<method>_loop<k>`), the fuel expression is given by the job table.
  * augmented assignments on local names, value-level `and` / `or` on ints, `&` / `>>` on ints,
    `for ..: if c: return K` followed by `return K'` (-> `List.any`).

Robustness against behaviour-preserving refactorings of the source (everything below is either exact Python semantics
or an equivalence whose side conditions are checked syntactically; when a side condition fails nothing is rewritten):

  * the components of a LOOP STATE (`for` -> `List.foldl`, `while` -> `<method>_loop<k>`) are listed in the order in
    which the variables are first bound in the function (`state_order`), never by name: renaming locals, or reordering
    / splitting / merging the assignments of a loop body, leaves the generated signatures alone.
  * `v = self.<attr>` (attribute read once into a local that is bound nowhere else) is inlined (`inline_self_aliases`):
    `degree = self.degree`, `to_fq = self.FQP_corresponding_FQ_class`; the output is that of the unrefactored source.
  * `acc = []` / `for T in IT: [if C:] acc.append(E)` is the comprehension `acc = [E for T in IT if C]`
    (`accumulate_pattern`).
  * a call of a module-level helper function defined in the same file whose body is a single expression (after the
    previous normalisation) is inlined at the call (`inline_helper`; atomic arguments only, no capture, the helper's
    source is pinned by its own `.. sha256 .. (module-level helper, inlined at its call)` header line of the generated
    definition).
  * `range(0, n)` is `range(n)`; `x if c else y` with one int and one bool branch is int-valued (bools are the ints
    0 / 1, as for the value-level `and` / `or`).
  * that `len(X) - E` / `len(X) - E - c` is not negative is DERIVED from the test of the enclosing `while len(X) > E`
    loop, tracking `X.pop()` and length-preserving updates flow-sensitively (`loop_len_facts`, `step_len_facts`,
    `derived_nonneg`): no table entry keyed by source text is needed for it, and moving the subtraction to a place
    where it could be negative is refused.

Totalisations (shared with the hand-written model): `l[i]` out of range is `0`, `b[k] op= v` out of
range is a no-op, `b.pop()` of an empty list yields `0`; the Python code raises `IndexError` there (the
classes keep `len(coeffs) == degree`, and the tie theorems that need it carry that hypothesis).
"""
import ast
import copy
import hashlib

from py2lean import BOOL, INT, LIT, NAT, T, Fn, TranslateError, indent, lname, terminates
from py2lean_extra import BINT, LIST, Ext, ExtraTranslator, has_exit, paren

FQT = ("obj", "FQ")      # an FQ object, represented by the value of its attribute `n`
FQPT = ("obj", "FQP")    # an FQP object, represented by the generated structure `FQP`
PYERR = "PyErr"


def lty(t):
    """Lean type of a translator type"""
    if t == FQT:
        return "Int"
    if t == FQPT:
        return "FQP"
    if isinstance(t, str):
        if t in (INT, NAT, BOOL):
            return t
        raise TranslateError(f"no Lean type for {t}")
    if t[0] == "tuple":
        return " × ".join("(" + lty(x) + ")" if isinstance(x, tuple) and x[0] == "tuple" else lty(x) for x in t[1])
    if t[0] == "list":
        s = lty(t[1])
        return f"List ({s})" if " " in s else f"List {s}"
    raise TranslateError(f"no Lean type for {t}")


def is_list(t):
    return isinstance(t, tuple) and t[0] == "list"


class ClassInfo:
    def __init__(self, name, obj, cattrs, fields=None, aliases=None, consts=None):
        self.name = name          # Python class name
        self.obj = obj            # translator type of an instance
        self.cattrs = cattrs      # class-level attributes: python attribute name -> (Lean parameter name, type)
        self.fields = fields      # instance attributes (ordered dict name -> type) for structure objects; None for FQ
        self.aliases = aliases or {}  # instance attributes that hold a CLASS: attr -> class name
        self.consts = consts or {}    # class-level attributes with a literal value: name -> (Lean text, type)


class FieldsTranslator(ExtraTranslator):
    def __init__(self, rel, tree, lines, classes, elt, externs=None, positive=(), nonneg=(), tuple_consts=None):
        super().__init__("int", externs=externs, positive=set(positive), nonneg=nonneg)
        self.rel, self.tree, self.lines = rel, tree, lines
        self.klass = dict(classes)          # class name -> ClassInfo
        self.elt = elt                      # translator type of the coefficients of an FQP object
        self.tuple_consts = dict(tuple_consts or {})  # module-level tuples of classes (for isinstance)
        self.methods = {}                   # (class name, python method name) -> {tuple of operand types: Ext}
        self.cls = None                     # ClassInfo of the method being translated
        self.selfname = None
        self.init_attrs = None              # inside __init__: attribute name -> type (assigned so far)
        self.count_ctx = 0                  # > 0 while translating the count of `[x] * n` / `range(n)`
        self.loop_markers = {}              # while-loop markers: name -> (call text, names, types, raising)
        self.saw_raise = False
        self.fuels = []
        self.loops_done = 0
        self.curname = None
        self.itcount = 0

    # ------------------------------------------------------------------ helpers
    def class_ast(self, name):
        for n in self.tree.body:
            if isinstance(n, ast.ClassDef) and n.name == name:
                return n
        raise TranslateError(f"class {name} not found in {self.rel}")

    def method_ast(self, cname, mname):
        c = self.class_ast(cname)
        found = [n for n in c.body if isinstance(n, ast.FunctionDef) and n.name == mname]
        if len(found) != 1:
            raise TranslateError(f"{cname}.{mname}: {len(found)} definitions")
        return found[0]

    def cparams(self, ci):
        return [(ln, t) for _, (ln, t) in ci.cattrs.items()]

    def kind_of(self, t):
        if t in (INT, LIT, NAT, BINT):
            return INT
        return t

    def lookup_method(self, cname, mname, argtys, ctx):
        table = self.methods.get((cname, mname))
        if table is None:
            raise TranslateError(f"{ctx}: method {cname}.{mname} has not been translated")
        key = tuple(self.kind_of(t) for t in argtys)
        if key not in table:
            raise TranslateError(f"{ctx}: {cname}.{mname} has no translation for operand kinds {key}")
        return table[key]

    def apply_ext(self, name, ext, args):
        """call of a generated function with already translated arguments [(text, type)]"""
        if len(args) != len(ext.params):
            raise TranslateError(f"call arity {name}")
        strs = []
        for (s, t), (pn, pt) in zip(args, ext.params):
            if t == LIT:
                if pt not in (INT, NAT):
                    raise TranslateError(f"literal argument for {name}.{pn}:{pt}")
                s, t = self.cast_lit(s, pt), pt
            if t == BINT and pt in (INT, NAT):
                s, t = self.cast_bint(s, pt), pt
            if t == NAT and pt == INT:
                s, t = f"(({s} : Nat) : Int)", INT
            if t == "prop" and pt == BOOL:
                s, t = f"decide {s}", BOOL
            if t != pt:
                raise TranslateError(f"argument type {t} for {name}.{pn}:{pt}")
            strs.append(paren(s))
        txt = " ".join([ext.lean] + strs)
        if ext.raises:
            self.saw_raise = True
            if self.binds is None:
                raise TranslateError(f"call to raising function {name} in an unsupported position")
            self.fresh += 1
            v = f"r{self.fresh}"
            self.binds.append((v, txt))
            return v, ext.ret
        return "(" + txt + ")", ext.ret

    def cattr_args(self, ci=None):
        ci = ci or self.cls
        return [(ln, t) for ln, t in self.cparams(ci)]

    def method_call(self, cname, mname, recv, args, ctx):
        """recv: (text, type) of the receiver or None (constructor / classmethod)"""
        ext = self.lookup_method(cname, mname, [t for _, t in args], ctx)
        full = list(self.cattr_args(self.klass[cname]))
        for ln, t in full:
            # the class attributes of the callee must be parameters of the function being translated
            if ln not in self.curenv or self.curenv[ln] != t:
                raise TranslateError(f"{ctx}: class attribute {ln} of {cname} is not available here")
        if recv is not None:
            full.append(recv)
        return self.apply_ext(f"{cname}.{mname}", ext, full + list(args))

    OPS = {ast.Add: ("__add__", "__radd__"), ast.Sub: ("__sub__", "__rsub__"), ast.Mult: ("__mul__", "__rmul__"),
           ast.Div: ("__truediv__", "__rtruediv__"), ast.Pow: ("__pow__", None)}

    def class_of_type(self, t):
        for ci in self.klass.values():
            if ci.obj == t and ci.name in ("FQ", "FQP"):
                return ci.name
        raise TranslateError(f"no class for {t}")

    # ------------------------------------------------------------------ static conditions
    def type_of_static(self, node, env):
        """type of a side-effect-free expression, without leaving hoisted calls behind"""
        mark = (None if self.binds is None else len(self.binds)), self.fresh, self.saw_raise
        _, t = self.expr(node, env)
        if self.binds is not None:
            del self.binds[mark[0]:]
        self.fresh, self.saw_raise = mark[1], mark[2]
        return t

    def static_cond(self, test, env):
        """True / False when the test is decided by translator types, None otherwise"""
        if isinstance(test, ast.UnaryOp) and isinstance(test.op, ast.Not):
            v = self.static_cond(test.operand, env)
            return None if v is None else (not v)
        if isinstance(test, ast.Call) and isinstance(test.func, ast.Name) and not test.keywords:
            if test.func.id == "hasattr" and "hasattr" not in env and len(test.args) == 2:
                o, a = test.args
                if isinstance(o, ast.Name) and o.id == self.selfname and isinstance(a, ast.Constant) \
                        and isinstance(a.value, str):
                    if a.value in self.cls.cattrs:
                        return True   # the class attribute is a parameter of the generated function
                    raise TranslateError(f"hasattr(self, {a.value!r}): not a declared class attribute")
                raise TranslateError(f"unsupported hasattr {ast.unparse(test)}")
            if test.func.id == "isinstance" and "isinstance" not in env and len(test.args) == 2:
                x, c = test.args
                if isinstance(x, ast.Subscript):
                    # isinstance(coeffs[0], C): decided by the element type of the list
                    lt = self.type_of_static(x.value, env)
                    if not is_list(lt):
                        raise TranslateError(f"isinstance on a subscript of {lt}")
                    t = lt[1]
                else:
                    t = self.type_of_static(x, env)
                return self.static_isinstance(t, c, env)
        return None

    def static_isinstance(self, t, c, env):
        k = self.kind_of(t)
        if k not in (INT, FQT, FQPT):
            raise TranslateError(f"isinstance on a value of type {t}")
        if isinstance(c, ast.Name) and c.id not in env:
            if c.id == "int":
                return k == INT
            if c.id in self.tuple_consts:
                return any(self.static_isinstance(t, ast.Name(id=x, ctx=ast.Load()), env) for x in self.tuple_consts[c.id])
            if c.id in ("FQ", "FQP") and c.id in self.klass:
                # (an FQP-typed operand is an instance of FQP; FQ-typed values are instances of this module's FQ,
                #  also the per-object class `FQP_corresponding_FQ_class`, which derives from it)
                return k == self.klass[c.id].obj
        if isinstance(c, ast.Call) and isinstance(c.func, ast.Name) and c.func.id == "type" and len(c.args) == 1 \
                and isinstance(c.args[0], ast.Name) and c.args[0].id == self.selfname and not c.keywords:
            # isinstance(other, type(self)): operands of the same translator type are instances of the same class
            return k == self.cls.obj
        raise TranslateError(f"unsupported isinstance class {ast.unparse(c)}")

    # ------------------------------------------------------------------ expressions
    def attribute(self, e, env):
        a = e.attr
        if isinstance(e.value, ast.Name) and e.value.id == self.selfname and \
                (self.selfname in env or self.init_attrs is not None or self.selfname == "cls"):
            ci = self.cls
            if self.init_attrs is not None and a in self.init_attrs:
                return f"self_{a}", self.init_attrs[a]
            if a in ci.cattrs:
                ln, t = ci.cattrs[a]
                if env.get(ln) != t:
                    raise TranslateError(f"class attribute parameter {ln} is shadowed")
                return ln, t
            if a in ci.consts:
                return ci.consts[a]
            if self.init_attrs is not None:
                raise TranslateError(f"attribute self.{a} read in __init__ before it is assigned")
            if self.selfname == "cls":
                raise TranslateError(f"class attribute cls.{a}")
        s, t = self.expr(e.value, env)
        if t == FQT:
            if a == "n":
                return s, INT
            raise TranslateError(f"attribute .{a} of an FQ object")
        if t == FQPT:
            ci = self.klass["FQP"]
            if a in ci.fields:
                return f"{paren(s)}.{a}", ci.fields[a]
            raise TranslateError(f"attribute .{a} of an FQP object")
        raise TranslateError(f"attribute .{a} on {t}")

    def norm_elem(self, s, t):
        """an element of a list display / comprehension gets a definite type"""
        if t == LIT:
            return self.cast_lit(s, INT), INT
        if t == BINT:
            return self.cast_bint(s, INT), INT
        if t == "prop":
            return f"decide {s}", BOOL
        return s, t

    def bind_targets(self, target, elt_t, env, var):
        """`for <target> in ..` / comprehension target: returns (env', let-lines, lambda binder)"""
        env2 = dict(env)
        if isinstance(target, ast.Name):
            env2[target.id] = elt_t
            return env2, "", f"({lname(target.id)} : {lty(elt_t)})"
        if isinstance(target, ast.Tuple) and all(isinstance(x, ast.Name) for x in target.elts):
            if not (isinstance(elt_t, tuple) and elt_t[0] == "tuple" and len(elt_t[1]) == len(target.elts)):
                raise TranslateError(f"unpacking {elt_t} into {len(target.elts)} names")
            names = [x.id for x in target.elts]
            if len(set(names)) != len(names):
                raise TranslateError("repeated name in a loop target")
            lets = ""
            from py2lean import proj
            for i, (n, ty) in enumerate(zip(names, elt_t[1])):
                env2[n] = ty
                lets += f"let {lname(n)} := {proj(var, len(names), i)}\n"
            return env2, lets, f"({var} : {lty(elt_t)})"
        raise TranslateError("unsupported loop target")

    def fresh_it(self):
        self.itcount += 1
        return f"it{self.itcount}"

    def comprehension(self, e, env):
        if len(e.generators) != 1:
            raise TranslateError("nested comprehension")
        g = e.generators[0]
        if g.is_async:
            raise TranslateError("async comprehension")
        # [f(x, y) for x, y in zip(a, b)]  ->  List.zipWith (fun x y => f x y) a b
        if isinstance(g.iter, ast.Call) and isinstance(g.iter.func, ast.Name) and g.iter.func.id == "zip" \
                and "zip" not in env and len(g.iter.args) == 2 and not g.iter.keywords and not g.ifs \
                and isinstance(g.target, ast.Tuple) and len(g.target.elts) == 2 \
                and all(isinstance(x, ast.Name) for x in g.target.elts) and g.target.elts[0].id != g.target.elts[1].id:
            (a, ta), (b, tb) = self.expr(g.iter.args[0], env), self.expr(g.iter.args[1], env)
            if not (is_list(ta) and is_list(tb)):
                raise TranslateError("zip of non-lists")
            x, y = g.target.elts[0].id, g.target.elts[1].id
            env2 = dict(env)
            env2[x], env2[y] = ta[1], tb[1]
            body, bt = self.pure_expr(e.elt, env2)
            body, bt = self.norm_elem(body, bt)
            return (f"(List.zipWith (fun ({lname(x)} : {lty(ta[1])}) ({lname(y)} : {lty(tb[1])}) => {body}) "
                    f"{paren(a)} {paren(b)})"), LIST(bt)
        it, itt = self.iterable(g.iter, env)
        if not is_list(itt):
            raise TranslateError(f"comprehension over {itt}")
        var = self.fresh_it()
        env2, lets, binder = self.bind_targets(g.target, itt[1], env, var)
        src = paren(it)
        for cnd in g.ifs:
            c = self.cond_pure(cnd, env2)
            src = f"(List.filter (fun {binder} => {self.inline_lets(lets)}decide {c}) {src})"
        body, bt = self.pure_expr(e.elt, env2)
        body, bt = self.norm_elem(body, bt)
        if isinstance(g.target, ast.Name) and isinstance(e.elt, ast.Name) and e.elt.id == g.target.id:
            return src, itt     # [x for x in l (if c)]: a (filtered) copy
        if isinstance(g.target, ast.Tuple) and isinstance(e.elt, ast.Tuple) and len(e.elt.elts) == len(g.target.elts) \
                and all(isinstance(x, ast.Name) and isinstance(y, ast.Name) and x.id == y.id
                        for x, y in zip(e.elt.elts, g.target.elts)):
            return src, itt     # [(i, c) for i, c in l (if c)]: a (filtered) copy
        return f"(List.map (fun {binder} => {self.inline_lets(lets)}{body}) {src})", LIST(bt)

    @staticmethod
    def inline_lets(lets):
        return "".join(ln + "; " for ln in lets.splitlines())

    def pure_expr(self, e, env):
        """an expression in a position where raising calls cannot be hoisted (lambda bodies)"""
        save = self.binds
        self.binds = None
        try:
            return self.expr(e, env)
        finally:
            self.binds = save

    def cond_pure(self, e, env):
        save = self.binds
        self.binds = None
        try:
            return self.cond(e, env)
        finally:
            self.binds = save

    def as_int(self, s, t, ctx):
        if t == LIT:
            return self.cast_lit(s, INT)
        if t == BINT:
            return self.cast_bint(s, INT)
        if t == BOOL:
            return f"(if {s} then (1 : Int) else (0 : Int))"
        if t == "prop":
            return f"(if {s} then (1 : Int) else (0 : Int))"
        if t == NAT:
            return f"(({s} : Nat) : Int)"
        if t == INT:
            return s
        raise TranslateError(f"{ctx}: int-valued operand expected, got {t}")

    def expr(self, e, env):
        if isinstance(e, ast.Name) and e.id in self.loop_markers:
            txt, names, types, raising = self.loop_markers[e.id]
            for n, t in zip(names, types):
                if env.get(n) != t:
                    raise TranslateError(f"loop-carried variable {n} changes type ({t} -> {env.get(n)})")
            st = lname(names[0]) if len(names) == 1 else "(" + ", ".join(lname(n) for n in names) + ")"
            sty = types[0] if len(names) == 1 else T(*types)
            call = f"{txt} {st}"
            if raising:
                if self.binds is None:
                    raise TranslateError("loop continuation in an unsupported position")
                self.fresh += 1
                v = f"r{self.fresh}"
                self.binds.append((v, call))
                return v, sty
            return "(" + call + ")", sty
        if isinstance(e, ast.Attribute):
            return self.attribute(e, env)
        if isinstance(e, (ast.ListComp, ast.GeneratorExp)):
            return self.comprehension(e, env)
        if isinstance(e, ast.List):
            if not e.elts:
                raise TranslateError("empty list display")
            parts = [self.norm_elem(*self.expr(x, env)) for x in e.elts]
            ts = {t for _, t in parts}
            if len(ts) != 1:
                raise TranslateError(f"list display with element types {ts}")
            return "[" + ", ".join(s for s, _ in parts) + "]", LIST(parts[0][1])
        if isinstance(e, ast.Subscript):
            base, tb = self.expr(e.value, env)
            if is_list(tb):
                if isinstance(e.slice, ast.Slice):
                    sl = e.slice
                    if sl.lower is not None or sl.step is not None or sl.upper is None:
                        raise TranslateError(f"unsupported slice {ast.unparse(e)}")
                    k, tk = self.expr(sl.upper, env)
                    if tk == LIT and k >= 0:
                        k, tk = self.cast_lit(k, NAT), NAT
                    if tk != NAT:
                        raise TranslateError(f"slice bound of type {tk}")
                    return f"(List.take {paren(k)} {paren(base)})", tb
                k, tk = self.expr(e.slice, env)
                if tk == LIT and k >= 0:
                    k, tk = self.cast_lit(k, NAT), NAT
                if tk != NAT:
                    raise TranslateError(f"list index of type {tk} (must be a natural number)")
                if lty(tb[1]) != "Int":
                    raise TranslateError(f"indexing a list of {tb[1]}")
                return f"(getI {paren(base)} {paren(k)})", tb[1]
            return super().expr(e, env)
        if isinstance(e, ast.IfExp):
            v = self.static_cond(e.test, env)
            if v is not None:
                return self.expr(e.body if v else e.orelse, env)
            ta, tb = self.type_of_static(e.body, env), self.type_of_static(e.orelse, env)
            boolish, intish = (BOOL, "prop"), (INT, NAT, LIT, BINT)
            if (ta in boolish and tb in intish) or (ta in intish and tb in boolish):
                # `x if c else y` with an int and a bool branch: as for the value-level `and` / `or` below, bools
                # count as the ints 0 / 1 (`False == 0`, `True == 1`, and `bool` is a subclass of `int`)
                mark = None if self.binds is None else len(self.binds)
                c = self.cond(e.test, env)
                a = self.as_int(*self.expr(e.body, env), ctx=ast.unparse(e))
                b = self.as_int(*self.expr(e.orelse, env), ctx=ast.unparse(e))
                if self.binds is not None and len(self.binds) != mark:
                    raise TranslateError(f"raising call inside the conditional expression {ast.unparse(e)}")
                return f"(if {c} then {a} else {b})", INT
            return super().expr(e, env)
        if isinstance(e, ast.BoolOp):
            tys = [self.type_of_static(v, env) for v in e.values]
            if all(t in (BOOL, "prop") for t in tys):
                return super().expr(e, env)
            # Python's value-level and / or on ints (bools count as the ints 0 / 1)
            vals = [self.as_int(*self.expr(v, env), ctx=ast.unparse(e)) for v in e.values]
            acc = vals[-1]
            for v in reversed(vals[:-1]):
                if isinstance(e.op, ast.And):
                    acc = f"(if {v} ≠ 0 then {acc} else {v})"
                else:
                    acc = f"(if {v} ≠ 0 then {v} else {acc})"
            return acc, INT
        if isinstance(e, ast.Compare) and len(e.ops) == 1 and isinstance(e.ops[0], (ast.Eq, ast.NotEq)):
            ta = self.type_of_static(e.left, env)
            if ta in (FQT, FQPT):
                a = self.expr(e.left, env)
                b = self.expr(e.comparators[0], env)
                m = "__eq__" if isinstance(e.ops[0], ast.Eq) else "__ne__"
                return self.method_call(self.class_of_type(ta), m, a, [b], ast.unparse(e))
            tb = self.type_of_static(e.comparators[0], env)
            if tb in (FQT, FQPT):
                raise TranslateError(f"reflected comparison {ast.unparse(e)}")
        if isinstance(e, ast.UnaryOp) and isinstance(e.op, ast.USub):
            t = self.type_of_static(e.operand, env)
            if t in (FQT, FQPT):
                a = self.expr(e.operand, env)
                return self.method_call(self.class_of_type(t), "__neg__", a, [], ast.unparse(e))
        return super().expr(e, env)

    def binop(self, e, env):
        op = e.op
        # list replication / concatenation
        if isinstance(op, ast.Mult):
            tl = self.type_of_static(e.left, env)
            if is_list(tl):
                if not (isinstance(e.left, ast.List) and len(e.left.elts) == 1):
                    raise TranslateError(f"list replication of {ast.unparse(e.left)}")
                x, tx = self.norm_elem(*self.expr(e.left.elts[0], env))
                self.count_ctx += 1
                try:
                    n, tn = self.expr(e.right, env)
                finally:
                    self.count_ctx -= 1
                if tn == LIT:
                    n, tn = self.cast_lit(max(n, 0), NAT), NAT
                if tn != NAT:
                    raise TranslateError(f"list replication count of type {tn}")
                return f"(List.replicate {paren(n)} {paren(x)})", LIST(tx)
        if isinstance(op, ast.Add):
            tl = self.type_of_static(e.left, env)
            if is_list(tl):
                a, ta = self.expr(e.left, env)
                right = e.right
                if isinstance(right, ast.Tuple) and right.elts:
                    right = ast.copy_location(ast.List(elts=right.elts, ctx=ast.Load()), right)   # l + (x,): the same sequence
                b, tb = self.expr(right, env)
                if ta != tb:
                    raise TranslateError(f"concatenation of {ta} and {tb}")
                return f"({a} ++ {b})", ta
        a, ta = self.expr(e.left, env)
        b, tb = self.expr(e.right, env)
        if ta in (FQT, FQPT) and type(op) in self.OPS:
            return self.method_call(self.class_of_type(ta), self.OPS[type(op)][0], (a, ta), [(b, tb)], ast.unparse(e))
        if tb in (FQT, FQPT):
            raise TranslateError(f"reflected operation {ast.unparse(e)} ({ta} op {tb}) is not supported")
        if isinstance(op, (ast.RShift, ast.BitAnd)) and (ta == INT or tb == INT):
            # Python ints are two's complement numbers of unbounded width, hence for every int x (also negative):
            #   x >> k == x // 2**k   and   x & (2**k - 1) == x % 2**k   (floor division / modulus)
            if ta != INT or tb != LIT or b < 0:
                raise TranslateError(f"unsupported bit operation {ast.unparse(e)}")
            if isinstance(op, ast.RShift):
                return f"({a} / ({2 ** b} : Int))", INT
            if (b + 1) & b != 0:
                raise TranslateError(f"mask {b} is not of the form 2**k - 1")
            return f"({a} % ({b + 1} : Int))", INT
        if isinstance(op, ast.Sub) and ta in (NAT, LIT) and tb in (NAT, LIT) and not (ta == LIT and tb == LIT):
            a2, b2, t = self.unify(a, ta, b, tb, ast.unparse(e))
            if self.count_ctx == 0 and ast.unparse(e) not in self.nonneg and not self.derived_nonneg(e, env):
                raise TranslateError(f"natural-number subtraction {ast.unparse(e)!r} not known to be non-negative")
            # in a count position (`[x] * n`, `range(n)`) a negative count means "empty": truncated subtraction
            return f"({a2} - {b2})", NAT
        return self.arith(e, a, ta, b, tb)

    def arith(self, e, a, ta, b, tb):
        """plain integer arithmetic on already translated operands (the logic of ExtraTranslator.binop)"""
        op = e.op
        if ta == LIT and tb == LIT:
            v = self.const_eval(e)
            if v is None:
                raise TranslateError(f"literal arithmetic {ast.unparse(e)}")
            return v, LIT
        if isinstance(op, (ast.RShift, ast.BitAnd)):
            a, b, t = self.unify(a, ta, b, tb, ast.unparse(e))
            if t != NAT:
                raise TranslateError(f"bit operation on {t}")
            sym = ">>>" if isinstance(op, ast.RShift) else "&&&"
            return f"({a} {sym} {b})", NAT
        if isinstance(op, (ast.Add, ast.Sub, ast.Mult)):
            a, b, t = self.unify(a, ta, b, tb, ast.unparse(e))
            if t not in (NAT, INT):
                raise TranslateError(f"arithmetic on {t}")
            if t == NAT and isinstance(op, ast.Sub):
                raise TranslateError("natural subtraction")
            sym = {ast.Add: "+", ast.Sub: "-", ast.Mult: "*"}[type(op)]
            return f"({a} {sym} {b})", t
        if isinstance(op, (ast.Mod, ast.FloorDiv)):
            a, b, t = self.unify(a, ta, b, tb, ast.unparse(e))
            if t not in (INT, NAT):
                raise TranslateError("% or // on non-integers")
            div = ast.unparse(e.right)
            dv = self.const_eval(e.right)
            if not (div in self.positive or (dv is not None and dv > 0)):
                raise TranslateError(f"divisor {div!r} is not known to be positive")
            sym = "%" if isinstance(op, ast.Mod) else "/"
            return f"({a} {sym} {b})", t
        raise TranslateError(f"binop {type(op).__name__} on {ta}, {tb}")

    def cond(self, e, env):
        v = self.static_cond(e, env)
        if v is not None:
            return "True" if v else "False"
        if isinstance(e, ast.Compare) and len(e.ops) == 1 and isinstance(e.ops[0], (ast.Eq, ast.NotEq)):
            ta = self.type_of_static(e.left, env)
            if ta in (FQT, FQPT):
                s, t = self.expr(e, env)
                return f"({s} = true)"
        if isinstance(e, ast.UnaryOp) and isinstance(e.op, ast.Not) and isinstance(e.operand, ast.Compare):
            return f"(¬ {self.cond(e.operand, env)})"
        return super().cond(e, env)

    def constructor(self, cname, args, env, ctx):
        """`C(args)`: the generated `__init__` of the operand kinds"""
        targs = [self.expr(a, env) for a in args]
        return self.method_call(cname, "__init__", None, targs, ctx)

    def call(self, e, env):
        f = e.func
        if e.keywords:
            return super().call(e, env)
        # type(self)(..) / cls(..)
        if isinstance(f, ast.Call) and isinstance(f.func, ast.Name) and f.func.id == "type" and "type" not in env \
                and len(f.args) == 1 and not f.keywords and isinstance(f.args[0], ast.Name) \
                and f.args[0].id == self.selfname and self.selfname == "self":
            return self.constructor(self.dynamic_class(), e.args, env, ast.unparse(e)[:60])
        if isinstance(f, ast.Name) and f.id == "cls" and self.selfname == "cls":
            return self.constructor(self.dynamic_class(), e.args, env, ast.unparse(e)[:60])
        if isinstance(f, ast.Attribute) and isinstance(f.value, ast.Name) and f.value.id == self.selfname:
            # self.<class alias>(..), self.<method>(..)
            if f.attr in self.cls.aliases:
                if self.init_attrs is not None and f.attr not in self.init_attrs:
                    raise TranslateError(f"class alias self.{f.attr} used before it is assigned")
                return self.constructor(self.cls.aliases[f.attr], e.args, env, ast.unparse(e)[:60])
            if (self.cls.name, f.attr) in self.methods or (self.base_name(), f.attr) in self.methods:
                cname = self.cls.name if (self.cls.name, f.attr) in self.methods else self.base_name()
                recv = self.expr(f.value, env)
                args = [self.expr(a, env) for a in e.args]
                return self.method_call(cname, f.attr, recv, args, ast.unparse(e)[:60])
            raise TranslateError(f"unsupported method call {ast.unparse(e)[:60]}")
        if isinstance(f, ast.Attribute) and f.attr == "pop" and not e.args:
            raise TranslateError("`.pop()` in an unsupported position")
        if isinstance(f, ast.Attribute) and f.attr not in ("one", "zero"):
            # <object>.<method>(..) on another object of a translated class
            rt = self.type_of_static(f.value, env)
            if rt in (FQT, FQPT):
                cname = self.class_of_type(rt)
                if (cname, f.attr) not in self.methods:
                    raise TranslateError(f"method {cname}.{f.attr} has not been translated")
                recv = self.expr(f.value, env)
                args = [self.expr(a, env) for a in e.args]
                return self.method_call(cname, f.attr, recv, args, ast.unparse(e)[:60])
        if isinstance(f, ast.Name) and f.id not in env:
            if f.id == "__upd__":
                # desugared `l[k] op= v`
                l, k, v = e.args[0], e.args[1], e.args[3]
                opn = e.args[2]
                ls, lt = self.expr(l, env)
                if not is_list(lt) or lty(lt[1]) != "Int":
                    raise TranslateError(f"in-place update of {lt}")
                ks, kt = self.expr(k, env)
                if kt == LIT and ks >= 0:
                    ks, kt = self.cast_lit(ks, NAT), NAT
                if kt != NAT:
                    raise TranslateError(f"list index of type {kt} (must be a natural number)")
                env2 = dict(env)
                # the updated element is the lambda-bound variable x' (not a Python identifier: no clash)
                px = "x'"
                env2[px] = lt[1]
                body = ast.BinOp(left=ast.Name(id=px, ctx=ast.Load()), op=opn.op, right=v)
                save = self.binds
                self.binds = None
                try:
                    bs, bt = self.expr(body, env2)
                finally:
                    self.binds = save
                if bt != lt[1]:
                    raise TranslateError(f"in-place update changes the element type ({lt[1]} -> {bt})")
                return f"(updAt {paren(ls)} {paren(ks)} (fun {px} => {bs}))", lt
            if f.id == "__set__":
                # desugared `l[k] = v`
                ls, lt = self.expr(e.args[0], env)
                if not is_list(lt) or lty(lt[1]) != "Int":
                    raise TranslateError(f"item assignment on {lt}")
                ks, kt = self.expr(e.args[1], env)
                if kt == LIT and ks >= 0:
                    ks, kt = self.cast_lit(ks, NAT), NAT
                if kt != NAT:
                    raise TranslateError(f"list index of type {kt} (must be a natural number)")
                save = self.binds
                self.binds = None
                try:
                    vs, vt = self.expr(e.args[2], env)
                finally:
                    self.binds = save
                if vt == LIT:
                    vs, vt = self.cast_lit(vs, INT), INT
                if vt != lt[1]:
                    raise TranslateError(f"item assignment changes the element type ({lt[1]} -> {vt})")
                return f"(updAt {paren(ls)} {paren(ks)} (fun _ => {vs}))", lt
            if f.id == "__last__":
                ls, lt = self.expr(e.args[0], env)
                if not is_list(lt) or lty(lt[1]) != "Int":
                    raise TranslateError(f".pop() on {lt}")
                return f"({paren(ls)}.getLast?.getD 0)", lt[1]
            if f.id == "__droplast__":
                ls, lt = self.expr(e.args[0], env)
                return f"{paren(ls)}.dropLast", lt
            if f.id == "len" and len(e.args) == 1:
                s, t = self.expr(e.args[0], env)
                if not is_list(t):
                    raise TranslateError(f"len of {t}")
                return f"{paren(s)}.length", NAT
            if f.id in ("tuple", "list") and len(e.args) == 1:
                # tuple(<sequence>) / list(<sequence>): our lists are immutable values
                s, t = self.iterable(e.args[0], env)
                if not is_list(t):
                    raise TranslateError(f"{f.id}() of {t}")
                return s, t
            if f.id in ("zip", "enumerate", "range"):
                return self.iterable(e, env)
            if f.id == "int" and len(e.args) == 1:
                s, t = self.expr(e.args[0], env)
                if t == FQT:
                    return self.method_call("FQ", "__int__", (s, t), [], ast.unparse(e)[:60])
                if t in (INT, NAT, LIT, BINT):
                    return s, t
                if t == BOOL:
                    return s, BINT
                raise TranslateError(f"int() of {t}")
            if f.id in self.module_fns:
                args = [self.expr(a, env) for a in e.args]
                table = self.module_fns[f.id]
                key = tuple(self.kind_of(t) for _, t in args)
                if key not in table:
                    raise TranslateError(f"{f.id} has no translation for operand kinds {key}")
                ext = table[key]
                for (pn, _), an in zip(ext.params, e.args):
                    if pn in getattr(ext, "positive_params", ()):
                        v = self.const_eval(an)
                        if not (ast.unparse(an) in self.positive or (v is not None and v > 0)):
                            raise TranslateError(f"{f.id}: argument {ast.unparse(an)!r} for {pn} is not known to be positive")
                return self.apply_ext(f.id, ext, args)
            if f.id not in self.externs and f.id not in self.subst and f.id not in self.erase \
                    and not (self.core_abs is not None and f.id in self.core_abs) \
                    and f.id not in ("cast", "bool", "int", "pow"):
                node = self.module_helper(f.id)
                if node is not None:
                    return self.inline_helper(node, e, env)
        return super().call(e, env)

    module_fns = {}

    def base_name(self):
        return "FQP" if self.cls.obj == FQPT else "FQ"

    def dynamic_class(self):
        """the class whose constructor `type(self)(..)` / `cls(..)` calls"""
        if self.cls.obj == FQT:
            return "FQ"
        return "FQPsub"

    # ------------------------------------------------------------------ iterables
    def iterable(self, e, env):
        if isinstance(e, ast.Call) and isinstance(e.func, ast.Name) and e.func.id not in env and not e.keywords:
            fid = e.func.id
            if fid == "range" and len(e.args) == 2 and self.const_eval(e.args[0]) == 0 \
                    and isinstance(e.args[0], ast.Constant) and type(e.args[0].value) is int:
                # range(0, n) is range(n)
                return self.iterable(ast.copy_location(ast.Call(func=e.func, args=[e.args[1]], keywords=[]), e), env)
            if fid == "range" and len(e.args) == 1:
                self.count_ctx += 1
                try:
                    s, t = self.expr(e.args[0], env)
                finally:
                    self.count_ctx -= 1
                if t == LIT:
                    s, t = self.cast_lit(max(s, 0), NAT), NAT
                if t != NAT:
                    raise TranslateError(f"range bound of type {t}")
                return f"(List.range {paren(s)})", LIST(NAT)
            if fid == "range" and len(e.args) == 3 and self.const_eval(e.args[1]) == -1 and self.const_eval(e.args[2]) == -1:
                hi = e.args[0]
                if isinstance(hi, ast.BinOp) and isinstance(hi.op, ast.Sub):
                    # range(a - b, -1, -1) on naturals: empty when a < b
                    a, ta = self.expr(hi.left, env)
                    b, tb = self.expr(hi.right, env)
                    if ta in (NAT, LIT) and tb in (NAT, LIT) and not (ta == LIT and tb == LIT):
                        a, b, _ = self.unify(a, ta, b, tb, ast.unparse(hi))
                        return f"(if {a} < {b} then [] else (List.range (({a} - {b}) + 1)).reverse)", LIST(NAT)
                return super().iterable(e, env)
            if fid == "enumerate" and len(e.args) == 1:
                s, t = self.iterable(e.args[0], env)
                if not is_list(t):
                    raise TranslateError(f"enumerate of {t}")
                return f"(List.zip (List.range {paren(s)}.length) {paren(s)})", LIST(T(NAT, t[1]))
            if fid == "zip" and len(e.args) == 2:
                (a, ta), (b, tb) = self.iterable(e.args[0], env), self.iterable(e.args[1], env)
                if not (is_list(ta) and is_list(tb)):
                    raise TranslateError("zip of non-lists")
                return f"(List.zip {paren(a)} {paren(b)})", LIST(T(ta[1], tb[1]))
            if fid in ("list", "tuple") and len(e.args) == 1:
                return self.iterable(e.args[0], env)
        return self.expr(e, env)

    # ------------------------------------------------------------------ statements
    def desugar(self, st, env):
        """rewrite statements with in-place effects on LOCAL names into plain assignments; returns a list"""
        if isinstance(st, ast.AugAssign):
            if isinstance(st.target, ast.Name):
                val = ast.BinOp(left=ast.Name(id=st.target.id, ctx=ast.Load()), op=st.op, right=st.value)
                return [ast.copy_location(ast.Assign(targets=[ast.Name(id=st.target.id, ctx=ast.Store())], value=val), st)]
            if isinstance(st.target, ast.Subscript) and isinstance(st.target.value, ast.Name):
                l = st.target.value.id
                # the third argument only carries the operator
                opnode = ast.BinOp(left=ast.Constant(value=0), op=st.op, right=ast.Constant(value=0))
                val = ast.Call(func=ast.Name(id="__upd__", ctx=ast.Load()),
                               args=[ast.Name(id=l, ctx=ast.Load()), st.target.slice, opnode, st.value], keywords=[])
                return [ast.copy_location(ast.Assign(targets=[ast.Name(id=l, ctx=ast.Store())], value=val), st)]
            raise TranslateError("unsupported augmented assignment")
        if isinstance(st, ast.Assign) and len(st.targets) == 1 and isinstance(st.targets[0], ast.Subscript) \
                and isinstance(st.targets[0].value, ast.Name):
            l = st.targets[0].value.id
            val = ast.Call(func=ast.Name(id="__set__", ctx=ast.Load()),
                           args=[ast.Name(id=l, ctx=ast.Load()), st.targets[0].slice, st.value], keywords=[])
            return [ast.copy_location(ast.Assign(targets=[ast.Name(id=l, ctx=ast.Store())], value=val), st)]
        if isinstance(st, ast.Assign) and len(st.targets) == 1:
            tgt, val = st.targets[0], st.value
            elts = val.elts if isinstance(val, ast.Tuple) else [val]
            if any(self.is_pop(x) for x in elts):
                tgts = tgt.elts if isinstance(tgt, ast.Tuple) else [tgt]
                if len(tgts) != len(elts) or not all(isinstance(t_, ast.Name) for t_ in tgts):
                    raise TranslateError("unsupported assignment with .pop()")
                names = [t_.id for t_ in tgts]
                out = []
                for n, x in zip(names, elts):
                    used = {y.id for y in ast.walk(x) if isinstance(y, ast.Name)}
                    if used & set(names):
                        raise TranslateError("assignment with .pop() reads one of its targets")
                    if self.is_pop(x):
                        l = x.func.value.id
                        ln = ast.Name(id=l, ctx=ast.Load())
                        out.append(ast.Assign(targets=[ast.Name(id=n, ctx=ast.Store())],
                                              value=ast.Call(func=ast.Name(id="__last__", ctx=ast.Load()), args=[ln], keywords=[])))
                        out.append(ast.Assign(targets=[ast.Name(id=l, ctx=ast.Store())],
                                              value=ast.Call(func=ast.Name(id="__droplast__", ctx=ast.Load()), args=[ln], keywords=[])))
                    else:
                        out.append(ast.Assign(targets=[ast.Name(id=n, ctx=ast.Store())], value=x))
                return [ast.copy_location(o, st) for o in out]
        return [st]

    @staticmethod
    def is_pop(x):
        return isinstance(x, ast.Call) and isinstance(x.func, ast.Attribute) and x.func.attr == "pop" and not x.args \
            and not x.keywords and isinstance(x.func.value, ast.Name)

    def desugar_deep(self, body, env_names):
        """desugar a whole statement list (used for loop bodies, whose variables are analysed syntactically)"""
        out = []
        for st in body:
            if isinstance(st, (ast.For, ast.While)):
                st2 = copy.copy(st)
                st2.body = self.desugar_deep(st.body, env_names)
                out.append(st2)
            elif isinstance(st, ast.If):
                st2 = copy.copy(st)
                st2.body = self.desugar_deep(st.body, env_names)
                st2.orelse = self.desugar_deep(st.orelse, env_names)
                out.append(st2)
            else:
                out += self.desugar(st, env_names)
        return out

    def assigned_names(self, body):
        out = []

        def add(n):
            if n not in out:
                out.append(n)
        for st in body:
            if isinstance(st, ast.Assign) and len(st.targets) == 1:
                tg = st.targets[0]
                if isinstance(tg, ast.Name):
                    add(tg.id)
                elif isinstance(tg, ast.Tuple) and all(isinstance(x, ast.Name) for x in tg.elts):
                    for x in tg.elts:
                        add(x.id)
                else:
                    return None
            elif isinstance(st, ast.If):
                for part in (st.body, st.orelse):
                    sub = self.assigned_names(part)
                    if sub is None:
                        return None
                    for n in sub:
                        add(n)
            elif isinstance(st, ast.For):
                sub = self.assigned_names(st.body)
                if sub is None or st.orelse:
                    return None
                for n in sub:
                    add(n)
                for x in ast.walk(st.target):
                    if isinstance(x, ast.Name):
                        add(x.id)
            else:
                return None
        return out

    def reads_before_write(self, body, name):
        for st in body:
            if isinstance(st, ast.For):
                if any(isinstance(x, ast.Name) and x.id == name for x in ast.walk(st.iter)):
                    return True
                if any(isinstance(x, ast.Name) and x.id == name for x in ast.walk(st.target)):
                    continue       # bound by the loop inside its body; not definitely bound after it
                if self.reads_before_write(st.body, name):
                    return True
                continue
            if isinstance(st, ast.While):
                if any(isinstance(x, ast.Name) and x.id == name for x in ast.walk(st.test)):
                    return True
                if self.reads_before_write(st.body, name):
                    return True
                continue
            if isinstance(st, (ast.AugAssign, ast.Return, ast.Expr, ast.Raise)):
                if any(isinstance(x, ast.Name) and x.id == name for x in ast.walk(st)):
                    return True
                continue
            r = super().reads_before_write([st], name)
            if isinstance(st, ast.Assign):
                if r:
                    return True
                tg = st.targets[0]
                tnames = [tg.id] if isinstance(tg, ast.Name) else [x.id for x in getattr(tg, "elts", []) if isinstance(x, ast.Name)]
                if name in tnames:
                    return False
            elif r:
                return True
        return False

    def maybe_unassigned(self, body, name):
        # an assignment inside a nested `for` is not definite (the loop may run zero times)
        return super().maybe_unassigned([st for st in body if not isinstance(st, ast.For)], name)

    @staticmethod
    def state_order(state, env):
        """the components of a loop state, in the order in which the variables were FIRST BOUND in the function (the
        insertion order of the environment: parameters, then locals).  The order does not depend on the NAMES of the
        variables (renaming a local leaves the generated definitions alone up to the names of bound variables, which
        Lean ignores), nor on the order in which the loop body assigns them."""
        assert all(n in env for n in state)
        return [n for n in env if n in state]

    def names_in(self, nodes):
        return {n.id for s in nodes for n in ast.walk(s) if isinstance(n, ast.Name)}

    def translate_loop_body(self, body, env_body, sty, fn, cur, tail):
        """translate a loop body first assuming it may raise; if no raising call was met, again as a pure body"""
        save = self.saw_raise, self.fresh, self.itcount
        save_fresh = set(self.fresh_lists)
        self.saw_raise = False
        loopfn = Fn(fn.name + ".<loop>", [], sty, True)
        try:
            txt = self.block(list(body) + [tail], dict(env_body), loopfn, cur)
            raising = self.saw_raise
        except TranslateError:
            if fn.raises:
                raise
            raising = False
            txt = None
        if raising and not fn.raises:
            raise TranslateError(f"{fn.name}: raising call in a loop of a non-raising function")
        if not raising:
            self.fresh, self.itcount = save[1], save[2]
            self.fresh_lists = set(save_fresh)
            loopfn = Fn(fn.name + ".<loop>", [], sty, False)
            txt = self.block(list(body) + [tail], dict(env_body), loopfn, cur)
        self.saw_raise = save[0] or raising
        return txt, raising

    def for_loop(self, st, rest, env, fn, cur):
        if st.orelse:
            raise TranslateError(f"{fn.name}: for/else")
        it, itt = self.iterable(st.iter, env)
        if not is_list(itt):
            raise TranslateError(f"{fn.name}: for loop over {itt}")
        body = self.desugar_deep(st.body, env)
        tnames = [x.id for x in ast.walk(st.target) if isinstance(x, ast.Name)]
        assigned = self.assigned_names(body)
        if assigned is None:
            raise TranslateError(f"{fn.name}: for body must consist of assignments, ifs of assignments and for loops")
        if set(tnames) & set(assigned):
            raise TranslateError(f"{fn.name}: loop variable reassigned")
        used_after = self.names_in(rest)
        if any(self.reads_before_write(rest, n) for n in tnames):
            raise TranslateError(f"{fn.name}: loop variable used after the loop")
        state = []
        for n in assigned:
            carried = self.reads_before_write(body, n)
            live = n in used_after
            definite = not self.maybe_unassigned(body, n)
            if carried or (live and not definite):
                if n not in env:
                    raise TranslateError(f"{fn.name}: loop-carried variable {n} undefined before the loop")
                state.append(n)
            elif live:
                raise TranslateError(f"{fn.name}: variable {n} defined only inside the loop is used after it")
        state = self.state_order(state, env)
        if not state:
            raise TranslateError(f"{fn.name}: loop without loop-carried state")
        sty = T(*[env[n] for n in state]) if len(state) > 1 else env[state[0]]
        pat = "(" + ", ".join(lname(n) for n in state) + ")" if len(state) > 1 else lname(state[0])
        var = self.fresh_it()
        env_body, lets, binder = self.bind_targets(st.target, itt[1], env, var)
        mname = f"__LOOP_STATE_{len(self.markers)}_{len(self.loop_markers)}__"
        marker = ast.Return(value=ast.Name(id=mname, ctx=ast.Load()))
        self.markers[mname] = (list(state), [env[n] for n in state])
        try:
            body_txt, raising = self.translate_loop_body(body, env_body, sty, fn, cur, marker)
        finally:
            del self.markers[mname]
        do = " do" if raising else ""
        inner = (f"let {pat} := st\n" if len(state) > 1 else "") + lets + body_txt
        sbinder = f"(st : {lty(sty)})" if len(state) > 1 else f"({pat} : {lty(sty)})"
        lam = f"fun {sbinder} {binder} =>{do}\n" + indent(inner, 4)
        if raising:
            line = f"let {pat} ← List.foldlM ({lam}) {pat} {paren(it)}\n"
        else:
            line = f"let {pat} := List.foldl ({lam}) {pat} {paren(it)}\n"
        return line + self.block(rest, env, fn, cur)

    def while_loop_x(self, st, rest, env, fn, cur):
        if st.orelse:
            raise TranslateError(f"{fn.name}: while/else")
        if has_exit(ast.Module(body=st.body, type_ignores=[])):
            raise TranslateError(f"{fn.name}: return/break/continue inside while")
        if self.loops_done >= len(self.fuels):
            raise TranslateError(f"{fn.name}: no fuel expression for the while loop at line {st.lineno}")
        fuel = self.fuels[self.loops_done]
        k = self.loops_done
        self.loops_done += 1
        body = self.desugar_deep(st.body, env)
        assigned = self.assigned_names(body)
        if assigned is None:
            raise TranslateError(f"{fn.name}: while body must consist of assignments, ifs of assignments and for loops")
        state = [n for n in assigned if n in env]
        locals_ = [n for n in assigned if n not in env]
        used_after = self.names_in(rest)
        for n in locals_:
            if n in used_after:
                raise TranslateError(f"{fn.name}: variable {n} defined only inside the while loop is used after it")
            if self.reads_before_write(body, n) or any(isinstance(x, ast.Name) and x.id == n for x in ast.walk(st.test)):
                raise TranslateError(f"{fn.name}: loop-local variable {n} is read before it is assigned")
        if not state:
            raise TranslateError(f"{fn.name}: while loop without state")
        state = self.state_order(state, env)
        types = [env[n] for n in state]
        sty = T(*types) if len(state) > 1 else types[0]
        pat = "(" + ", ".join(lname(n) for n in state) + ")" if len(state) > 1 else lname(state[0])
        # captured variables: everything else of the environment that the loop mentions
        mentioned = self.names_in(body) | self.names_in([st.test])
        caps = [n for n in env if n not in state and (n in mentioned or n in [ln for ln, _ in self.cparams(self.cls)])
                and not (isinstance(env[n], tuple) and env[n][0] == "fn")]
        loop_name = f"{self.curname}_loop{k}"
        cap_decl = " ".join(f"({lname(n)} : {lty(env[n])})" for n in caps)
        cap_args = " ".join(lname(n) for n in caps)
        mname = f"__WHILE_{len(self.markers)}_{len(self.loop_markers)}__"
        marker = ast.Return(value=ast.Name(id=mname, ctx=ast.Load()))
        prefix = " ".join(x for x in [loop_name, cap_args, "fuel"] if x)

        def run(raising):
            self.loop_markers[mname] = (prefix, list(state), types, raising)
            try:
                return self.block(list(body) + [marker], self.while_body_env(st, body, assigned, env),
                                  Fn(fn.name + ".<while>", [], sty, raising), cur)
            finally:
                del self.loop_markers[mname]
        save = self.saw_raise, self.fresh, self.itcount
        save_fresh = set(self.fresh_lists)
        self.saw_raise = False
        raising = False
        if fn.raises:
            body_txt = run(True)
            raising = self.saw_raise
        if not raising:
            self.fresh, self.itcount = save[1], save[2]
            self.fresh_lists = set(save_fresh)
            body_txt = run(False)
        self.saw_raise = save[0] or raising
        c = self.cond_pure(st.test, env)
        rty = f"Except PyErr ({lty(sty)})" if raising else lty(sty)
        if raising:
            aux = (f"/- the `while` loop at line {st.lineno} of `{fn.name}`; state: {pat} -/\n"
                   f"def {loop_name} {cap_decl} : Nat → {paren_ty(lty(sty))} → {rty}\n"
                   f"  | 0, st => pure st\n"
                   f"  | fuel+1, {pat} =>\n"
                   f"    if {c} then do\n{indent(body_txt, 6)}\n    else pure {pat}")
        else:
            aux = (f"/- the `while` loop at line {st.lineno} of `{fn.name}`; state: {pat} -/\n"
                   f"def {loop_name} {cap_decl} : Nat → {paren_ty(lty(sty))} → {rty}\n"
                   f"  | 0, st => st\n"
                   f"  | fuel+1, {pat} =>\n"
                   f"    if {c} then\n{indent(body_txt, 6)}\n    else {pat}")
        cur["aux_defs"].append(aux)
        arrow = "←" if raising else ":="
        call = " ".join(x for x in [loop_name, cap_args, paren(fuel), pat] if x)
        return f"let {pat} {arrow} {call}\n" + self.block(rest, env, fn, cur)

    def if_merge(self, st, rest, env, fn, cur):
        """`if c: x = e` (no else, no exit); e may contain raising calls in a raising function"""
        if st.orelse:
            raise TranslateError(f"{fn.name}: non-returning if/else")
        names, vals, pres = [], [], ""
        for s in st.body:
            if not (isinstance(s, ast.Assign) and len(s.targets) == 1 and isinstance(s.targets[0], ast.Name)):
                raise TranslateError(f"{fn.name}: non-returning `if` body must consist of simple assignments")
            n = s.targets[0].id
            if n in names or n not in env:
                raise TranslateError(f"{fn.name}: variable {n} assigned twice / conditionally defined in an `if` body")
            used = {x.id for x in ast.walk(s.value) if isinstance(x, ast.Name)}
            if used & set(names):
                raise TranslateError(f"{fn.name}: sequentially dependent assignments in an `if` body")
            pre, v, t, _ = self.hexpr(s.value, env, fn)
            if t == LIT:
                v, t = self.cast_lit(v, env[n]), env[n]
            v, t = self.norm_val(v, t)
            if t != env[n]:
                raise TranslateError(f"{fn.name}: {n} changes type in an `if` body ({env[n]} -> {t})")
            names.append(n)
            vals.append(v)
            pres += pre
        c = self.cond(st.test, env)
        pat = lname(names[0]) if len(names) == 1 else "(" + ", ".join(lname(n) for n in names) + ")"
        val = vals[0] if len(names) == 1 else "(" + ", ".join(vals) + ")"
        if pres:
            line = f"let {pat} ← (if {c} then do\n{indent(pres + 'pure ' + paren(val), 4)}\n  else pure {pat})\n"
        else:
            line = f"let {pat} := if {c} then {val} else {pat}\n"
        return line + self.block(rest, env, fn, cur)

    def block(self, body, env, fn, cur, tail_state=None):
        self.curenv = env
        if not body:
            raise TranslateError(f"{fn.name}: control reaches end of function without return")
        first = self.desugar(body[0], env)
        if len(first) != 1 or first[0] is not body[0]:
            return self.block(first + list(body[1:]), env, fn, cur, tail_state=tail_state)
        st, rest = body[0], list(body[1:])
        env = self.step_len_facts(env, st)
        self.curenv = env
        if isinstance(st, ast.If):
            v = self.static_cond(st.test, env)
            if v is not None:
                chosen = st.body if v else st.orelse
                if terminates(chosen):
                    return self.block(chosen, env, fn, cur)
                return self.block(list(chosen) + rest, env, fn, cur, tail_state=tail_state)
            if not terminates(st.body) and not terminates(st.orelse) and not has_exit(st) and not st.orelse \
                    and not (len(rest) == 1 and isinstance(rest[0], ast.Return) and isinstance(rest[0].value, ast.Name)
                             and (rest[0].value.id in self.markers or rest[0].value.id in self.loop_markers)
                             and tail_state is not None):
                return self.if_merge(st, rest, env, fn, cur)
        if isinstance(st, ast.While):
            return self.while_loop_x(st, rest, env, fn, cur)
        if isinstance(st, ast.For) and len(st.body) == 1 and isinstance(st.body[0], ast.If) and not st.body[0].orelse \
                and len(st.body[0].body) == 1 and isinstance(st.body[0].body[0], ast.Return) \
                and len(rest) == 1 and isinstance(rest[0], ast.Return) and not st.orelse:
            # for x in L: if c: return K     followed by   return K'
            it, itt = self.iterable(st.iter, env)
            if not is_list(itt):
                raise TranslateError(f"{fn.name}: for loop over {itt}")
            var = self.fresh_it()
            env2, lets, binder = self.bind_targets(st.target, itt[1], env, var)
            c = self.cond_pure(st.body[0].test, env2)
            a = self.ret_stmt(st.body[0].body[0].value, env2, fn)
            if self.names_in([st.body[0].body[0].value]) & (set(env2) - set(env)):
                raise TranslateError("early return value depends on the loop variable")
            b = self.ret_stmt(rest[0].value, env, fn)
            return (f"if (List.any {paren(it)} (fun {binder} => {self.inline_lets(lets)}decide {c})) = true then\n"
                    f"{indent(a)}\nelse\n{indent(b)}")
        if isinstance(st, ast.Assign) and len(st.targets) == 1 and isinstance(st.targets[0], ast.Attribute):
            return self.attr_assign(st, rest, env, fn, cur)
        if isinstance(st, ast.AnnAssign) and isinstance(st.target, ast.Attribute) and st.value is not None:
            st2 = ast.copy_location(ast.Assign(targets=[st.target], value=st.value), st)
            return self.attr_assign(st2, rest, env, fn, cur)
        if isinstance(st, ast.Assign) and len(st.targets) == 1 and isinstance(st.targets[0], ast.Name):
            # track fresh local lists (the only lists that may be updated in place)
            v = st.value
            if isinstance(v, ast.Call) and isinstance(v.func, ast.Name) and v.func.id in ("__upd__", "__set__", "__droplast__", "__last__"):
                l = v.args[0].id
                if l not in env or not is_list(env[l]) or l not in self.fresh_lists:
                    raise TranslateError(f"{fn.name}: in-place update of {l}, which is not a fresh (unaliased) local list")
                if v.func.id != "__last__" and st.targets[0].id != l:
                    raise TranslateError("in-place update bound to another name")
            self.note_fresh(st.targets[0].id, st.value, env)
        if isinstance(st, ast.Assign) and len(st.targets) == 1 and isinstance(st.targets[0], ast.Tuple) \
                and all(isinstance(x, ast.Name) for x in st.targets[0].elts):
            names = [x.id for x in st.targets[0].elts]
            t = None
            if not (isinstance(st.value, ast.Tuple) and len(st.value.elts) == len(names)):
                t = self.type_of_static(st.value, env)
            if t is not None and is_list(t):
                # x_0, x_1 = <list>: ValueError unless the length is exact
                if not fn.raises:
                    raise TranslateError(f"{fn.name}: unpacking a list in a non-raising function")
                pre, s, t, is_call = self.hexpr(st.value, env, fn, direct=True)
                env2 = dict(env)
                for n in names:
                    env2[n] = t[1]
                pat = "[" + ", ".join(lname(n) for n in names) + "]"
                self.saw_raise = True
                return (pre + f"match {s} with\n| {pat} =>\n" + indent(self.block(rest, env2, fn, cur))
                        + "\n| _ => throw PyErr.value")
            if isinstance(st.value, ast.Tuple) and len(st.value.elts) == len(names):
                used = self.names_in([st.value])
                if used & set(names):
                    # simultaneous assignment: evaluate every right-hand side first
                    tmpn = [f"tmp_{n}" for n in names]
                    if set(tmpn) & (set(env) | used):
                        raise TranslateError("temporary name clash")
                    seq = [ast.Assign(targets=[ast.Name(id=tn, ctx=ast.Store())], value=v)
                           for tn, v in zip(tmpn, st.value.elts)]
                    seq += [ast.Assign(targets=[ast.Name(id=n, ctx=ast.Store())], value=ast.Name(id=tn, ctx=ast.Load()))
                            for n, tn in zip(names, tmpn)]
                    return self.block(seq + rest, env, fn, cur, tail_state=tail_state)
        if isinstance(st, ast.Return) and st.value is not None and self.init_attrs is not None \
                and not (isinstance(st.value, ast.Name) and st.value.id == "__INIT_DONE__"):
            raise TranslateError("return with a value in __init__")
        return super().block(body, env, fn, cur, tail_state=tail_state)

    fresh_lists = set()

    def creates_list(self, value):
        """does the expression create a NEW list object (so that updating it in place cannot affect another name)?"""
        if isinstance(value, (ast.ListComp, ast.List)):
            return True
        if isinstance(value, ast.BinOp) and isinstance(value.op, (ast.Mult, ast.Add)):
            return True        # `l1 + l2`, `[x] * n` build a new list
        if isinstance(value, ast.Call) and isinstance(value.func, ast.Name):
            if value.func.id in ("list", "__upd__", "__set__", "__droplast__"):
                return True
            if value.func.id == "cast" and len(value.args) == 2:
                return self.creates_list(value.args[1])
        return False

    def note_fresh(self, name, value, env):
        if self.creates_list(value):
            self.fresh_lists.add(name)
        else:
            self.fresh_lists.discard(name)
            # aliasing of a fresh list: the alias and the original are both frozen from now on
            for x in self.may_alias(value):
                self.fresh_lists.discard(x)

    def may_alias(self, value):
        """names whose object the value of the expression may BE (not merely read)"""
        if isinstance(value, ast.Name):
            return [value.id]
        if isinstance(value, (ast.Tuple, ast.List)):
            return [n for x in value.elts for n in self.may_alias(x)]
        if isinstance(value, ast.IfExp):
            return self.may_alias(value.body) + self.may_alias(value.orelse)
        if isinstance(value, ast.Call) and isinstance(value.func, ast.Name) and value.func.id == "cast" and len(value.args) == 2:
            return self.may_alias(value.args[1])
        return []

    def attr_assign(self, st, rest, env, fn, cur):
        tgt = st.targets[0]
        if not (self.init_attrs is not None and isinstance(tgt.value, ast.Name) and tgt.value.id == self.selfname):
            raise TranslateError(f"{fn.name}: attribute assignment outside __init__")
        a = tgt.attr
        if a in self.cls.aliases:
            self.check_alias(a, st.value)
            self.init_attrs[a] = ("class", self.cls.aliases[a])
            return self.block(rest, env, fn, cur)
        if a in self.init_attrs:
            raise TranslateError(f"{fn.name}: attribute self.{a} assigned twice")
        pre, s, t, is_call = self.hexpr(st.value, env, fn, direct=True)
        s, t = self.norm_val(s, t)
        arrow = "←" if is_call else ":="
        self.init_attrs[a] = t
        return pre + f"let self_{a} {arrow} {s}\n" + self.block(rest, env, fn, cur)

    def check_alias(self, a, value):
        """`self.X = type("X", (FQ,), {"field_modulus": self.field_modulus})`: a subclass of FQ with OUR modulus"""
        want = f"type('{a}', (FQ,), {{'field_modulus': self.field_modulus}})"
        if ast.unparse(value) != want:
            raise TranslateError(f"class alias self.{a} is bound to {ast.unparse(value)!r}, expected {want!r}")


    # ------------------------------------------------------------------ source normalisations
    # Each of these rewrites a construct into an EQUIVALENT spelling that the translator already understands, under
    # side conditions that are checked syntactically.  When a side condition fails the source is left as it is (and
    # the translator then either understands it as written or raises `TranslateError`): nothing is ever guessed.

    @staticmethod
    def occurrences(nodes, name):
        return sum(1 for s in nodes for x in ast.walk(s) if isinstance(x, ast.Name) and x.id == name)

    SCOPE_SENSITIVE = (ast.NamedExpr, ast.Yield, ast.YieldFrom, ast.Await, ast.Lambda)

    def accumulate_pattern(self, st, nxt, root):
        """the adjacent statements

              acc = []                                     acc = []
              for T in IT:                        or       for T in IT:
                  if C:                                        acc.append(E)
                      acc.append(E)

        are `acc = [E for T in IT if C]` (resp. without the `if`): IT is evaluated once, then for every item C, E are
        evaluated in this order and the value of E is appended to a new list, and an exception raised by IT / C / E
        propagates at the same point.  The two differ only in the SCOPE of the names of T (a comprehension does not
        leak its variables, a `for` statement binds them in the function) and in the moment `acc` is bound; hence the
        side conditions: the names of T occur nowhere else in the function, `acc` does not occur in T, IT, C, E, and
        none of these contains a construct whose meaning depends on the enclosing scope (walrus, lambda, yield, await).
        Returns the assignment of the comprehension, or None when the pattern / a side condition does not hold."""
        if not (isinstance(st, ast.Assign) and len(st.targets) == 1 and isinstance(st.targets[0], ast.Name)
                and isinstance(st.value, ast.List) and not st.value.elts and isinstance(nxt, ast.For)):
            return None
        acc = st.targets[0].id
        if nxt.orelse or len(nxt.body) != 1:
            return None
        tg = nxt.target
        if isinstance(tg, ast.Name):
            tnames = [tg.id]
        elif isinstance(tg, ast.Tuple) and all(isinstance(x, ast.Name) for x in tg.elts):
            tnames = [x.id for x in tg.elts]
        else:
            return None
        inner, conds = nxt.body[0], []
        if isinstance(inner, ast.If):
            if inner.orelse or len(inner.body) != 1:
                return None
            conds, inner = [inner.test], inner.body[0]
        if not (isinstance(inner, ast.Expr) and isinstance(inner.value, ast.Call) and not inner.value.keywords
                and len(inner.value.args) == 1 and isinstance(inner.value.func, ast.Attribute)
                and inner.value.func.attr == "append" and isinstance(inner.value.func.value, ast.Name)
                and inner.value.func.value.id == acc and not isinstance(inner.value.args[0], ast.Starred)):
            return None
        elt = inner.value.args[0]
        parts = [tg, nxt.iter, elt] + conds
        if acc in tnames or len(set(tnames)) != len(tnames) or self.occurrences(parts, acc):
            return None
        if any(isinstance(x, self.SCOPE_SENSITIVE) for p_ in parts for x in ast.walk(p_)):
            return None
        for n in tnames:
            if self.occurrences(root, n) != self.occurrences([nxt], n):
                return None        # the loop variable is used (or bound) outside the loop
        gen = ast.comprehension(target=copy.deepcopy(tg), iter=nxt.iter, ifs=list(conds), is_async=0)
        comp = ast.ListComp(elt=elt, generators=[gen])
        new = ast.Assign(targets=[ast.Name(id=acc, ctx=ast.Store())], value=comp)
        return ast.fix_missing_locations(ast.copy_location(new, st))

    def normalize_stmts(self, body, root=None):
        """apply `accumulate_pattern` wherever it matches (also inside nested statement lists)"""
        root = body if root is None else root
        out, i = [], 0
        while i < len(body):
            st = body[i]
            comp = self.accumulate_pattern(st, body[i + 1] if i + 1 < len(body) else None, root)
            if comp is not None:
                out.append(comp)
                i += 2
                continue
            if isinstance(st, (ast.If, ast.For, ast.While)):
                b2 = self.normalize_stmts(st.body, root)
                o2 = self.normalize_stmts(st.orelse, root) if st.orelse else st.orelse
                if len(b2) != len(st.body) or any(x is not y for x, y in zip(b2, st.body)) \
                        or len(o2) != len(st.orelse) or any(x is not y for x, y in zip(o2, st.orelse)):
                    st = copy.copy(st)
                    st.body, st.orelse = b2, o2
            out.append(st)
            i += 1
        return out

    def inline_self_aliases(self, body, ci, selfname, params):
        """`v = self.<attr>` in a statement list L of a method body (the body itself, or a branch of an `if` / the body
        of a loop), where `v` is bound NOWHERE else in the method, every read of `v` is in a LATER statement of L
        (so the assignment has been executed whenever `v` is read) and `<attr>` is an instance attribute / class
        attribute / class alias of the translated class: the statement is dropped and every `v` is read as
        `self.<attr>`.
        This is exact in the translator's object model: `self` is never rebound (checked), the attributes of an
        object are assigned in `__init__` only (an attribute assignment anywhere else is a `TranslateError`), reading
        one has no effect and cannot raise, and every callee is one of the translated (pure) functions; so
        `self.<attr>` denotes the same value wherever it is evaluated.  (`degree = self.degree` ..)"""
        if selfname != "self" or ci is None:
            return body
        allnodes = [x for s_ in body for x in ast.walk(s_)]
        banned = (ast.FunctionDef, ast.AsyncFunctionDef, ast.Lambda, ast.ClassDef, ast.Global, ast.Nonlocal,
                  ast.NamedExpr, ast.ExceptHandler, ast.With, ast.AsyncWith, ast.Import, ast.ImportFrom, ast.Match)
        if any(isinstance(x, banned) for x in allnodes):
            return body
        if any(isinstance(x, ast.Name) and x.id == selfname and not isinstance(x.ctx, ast.Load) for x in allnodes):
            return body
        aliases, drop = {}, set()

        def scan(lst):
            for i, st in enumerate(lst):
                for sub in (getattr(st, "body", None), getattr(st, "orelse", None)):
                    if isinstance(sub, list):
                        scan(sub)
                if not (isinstance(st, ast.Assign) and len(st.targets) == 1 and isinstance(st.targets[0], ast.Name)
                        and isinstance(st.value, ast.Attribute) and isinstance(st.value.value, ast.Name)
                        and st.value.value.id == selfname):
                    continue
                v, a = st.targets[0].id, st.value.attr
                if v in params or v == selfname or v in aliases:
                    continue
                if not (a in (ci.fields or {}) or a in ci.aliases or a in ci.cattrs or a in ci.consts):
                    continue
                stores = sum(1 for x in allnodes if isinstance(x, ast.Name) and x.id == v and not isinstance(x.ctx, ast.Load))
                if stores != 1 or self.occurrences(body, v) != 1 + self.occurrences(lst[i + 1:], v):
                    continue
                aliases[v] = st.value
                drop.add(id(st))
        scan(body)
        if not aliases:
            return body

        class Sub(ast.NodeTransformer):
            def visit_Name(self, node):
                if node.id in aliases and isinstance(node.ctx, ast.Load):
                    return ast.copy_location(copy.deepcopy(aliases[node.id]), node)
                return node

        def rebuild(lst):
            out = []
            for st in lst:
                if id(st) in drop:
                    continue
                st = copy.copy(st)
                for fld in ("body", "orelse"):
                    sub = getattr(st, fld, None)
                    if isinstance(sub, list):
                        setattr(st, fld, rebuild(sub))
                out.append(st)
            return out
        out = [ast.fix_missing_locations(Sub().visit(copy.deepcopy(st))) for st in rebuild(body)]
        for st in out:
            for x in ast.walk(st):
                if isinstance(getattr(x, "body", None), list) and not x.body and not isinstance(x, ast.Module):
                    raise TranslateError("dropping an alias assignment leaves an empty statement list")
        return out

    # ------------------------------------------------------------------ module-level helper functions
    def module_helper(self, name):
        """the `def` of a module-level function of the translated file that is the ONLY binding of its name in the
        whole file (no other def / class / import / assignment / global declaration of the name); else None"""
        defs = [n for n in self.tree.body if isinstance(n, ast.FunctionDef) and n.name == name]
        if len(defs) != 1:
            return None
        for x in ast.walk(self.tree):
            if isinstance(x, (ast.FunctionDef, ast.AsyncFunctionDef, ast.ClassDef)) and x.name == name and x is not defs[0]:
                return None
            if isinstance(x, ast.Name) and x.id == name and not isinstance(x.ctx, ast.Load):
                return None
            if isinstance(x, ast.alias) and (x.asname or x.name.split(".")[0]) == name:
                return None
            if isinstance(x, (ast.Global, ast.Nonlocal)) and name in x.names:
                return None
        return defs[0]

    @staticmethod
    def atomic_arg(a, selfname):
        """an argument whose evaluation has no effect, cannot raise and may be repeated: a name, `self.<attr>`, an int"""
        if isinstance(a, ast.Name):
            return True
        if isinstance(a, ast.Constant) and type(a.value) is int:
            return True
        return isinstance(a, ast.Attribute) and isinstance(a.value, ast.Name) and a.value.id == selfname

    def inline_helper(self, node, e, env):
        """a call `h(a1, .., ak)` of a module-level function of the same file whose body is (after
        `normalize_stmts`) a docstring, optionally `x = <expr>`, and `return <expr>` / `return x`: the call is
        translated as <expr> with the parameters replaced by the (atomic) arguments.  Python evaluates the arguments
        (atomic: no effect), binds them to the parameters and evaluates <expr> in the helper's frame, where every
        other name is a module-level / builtin name — the same object as in the caller, which is checked not to
        shadow it.  The helper's source is pinned by a header line of the generated definition."""
        name = node.name
        self.check_decorators(node, ())
        a = node.args
        if a.kwonlyargs or a.vararg or a.kwarg or a.posonlyargs or a.defaults or e.keywords \
                or any(isinstance(x, ast.Starred) for x in e.args):
            raise TranslateError(f"helper {name}: unsupported parameter / argument kinds")
        params = [p.arg for p in a.args]
        if len(params) != len(e.args) or len(set(params)) != len(params):
            raise TranslateError(f"helper {name}: call arity")
        for arg in e.args:
            if not self.atomic_arg(arg, self.selfname):
                raise TranslateError(f"helper {name}: argument {ast.unparse(arg)!r} is not a name / self attribute / int literal")
        body = [st for st in node.body
                if not (isinstance(st, ast.Expr) and isinstance(st.value, ast.Constant) and isinstance(st.value.value, str))]
        body = self.normalize_stmts(body)
        if len(body) == 2 and isinstance(body[0], ast.Assign) and len(body[0].targets) == 1 \
                and isinstance(body[0].targets[0], ast.Name) and isinstance(body[1], ast.Return) \
                and isinstance(body[1].value, ast.Name) and body[1].value.id == body[0].targets[0].id \
                and body[0].targets[0].id not in params \
                and not self.occurrences([body[0].value], body[0].targets[0].id):
            val = body[0].value        # `x = <expr>` / `return x`
        elif len(body) == 1 and isinstance(body[0], ast.Return) and body[0].value is not None:
            val = body[0].value
        else:
            raise TranslateError(f"helper {name}: the body is not a single expression (after normalisation)")
        nodes = list(ast.walk(val))
        if any(isinstance(x, self.SCOPE_SENSITIVE) for x in nodes):
            raise TranslateError(f"helper {name}: scope-sensitive construct")
        stored = {x.id for x in nodes if isinstance(x, ast.Name) and not isinstance(x.ctx, ast.Load)}
        loaded = {x.id for x in nodes if isinstance(x, ast.Name) and isinstance(x.ctx, ast.Load)}
        if stored & set(params):
            raise TranslateError(f"helper {name}: a parameter is rebound")
        for x in nodes:
            if isinstance(x, (ast.ListComp, ast.GeneratorExp, ast.SetComp, ast.DictComp)):
                first = x.generators[0].iter
                if {y.id for y in ast.walk(first) if isinstance(y, ast.Name)} & stored:
                    raise TranslateError(f"helper {name}: comprehension variable used in its own iterable")
        free = loaded - stored - set(params)
        for n in sorted(free):
            if n in env or n == self.selfname:
                raise TranslateError(f"helper {name}: its global name {n} is shadowed in the caller")
        argnames = {y.id for arg in e.args for y in ast.walk(arg) if isinstance(y, ast.Name)}
        if argnames & stored:
            raise TranslateError(f"helper {name}: an argument would be captured by a comprehension variable")
        mapping = dict(zip(params, e.args))

        class Sub(ast.NodeTransformer):
            def visit_Name(self, nd):
                if nd.id in mapping and isinstance(nd.ctx, ast.Load):
                    return ast.copy_location(copy.deepcopy(mapping[nd.id]), nd)
                return nd
        new = ast.fix_missing_locations(Sub().visit(copy.deepcopy(val)))
        hdr = self.header(node, "").replace(" -/\n", " (module-level helper, inlined at its call) -/\n")
        if hdr not in self.helper_hdrs:
            self.helper_hdrs.append(hdr)
        if name in self.inlining:
            raise TranslateError(f"helper {name}: recursive")
        self.inlining.append(name)
        try:
            return self.expr(new, env)
        finally:
            self.inlining.pop()

    helper_hdrs = []
    inlining = []

    # ------------------------------------------------------------------ derived facts `len(X) >= E + k`
    LENFACTS = "<len facts>"      # key of `env` (not an identifier): {X: (text of E, k)}; flows with the environment

    @staticmethod
    def is_len_of(node):
        if isinstance(node, ast.Call) and isinstance(node.func, ast.Name) and node.func.id == "len" \
                and len(node.args) == 1 and not node.keywords and isinstance(node.args[0], ast.Name):
            return node.args[0].id
        return None

    def loop_len_facts(self, test, assigned, env):
        """`while len(X) > E` (`>=`, `E < len(X)`, `E <= len(X)`): at the start of the body `len(X) >= E + 1` (`+ 0`), for an
        expression E that mentions neither X nor any name the body assigns and calls nothing (so that it keeps its
        value throughout the body; attributes of objects are immutable in the translator's object model)"""
        if not (isinstance(test, ast.Compare) and len(test.ops) == 1) or "len" in env:
            return {}
        l, op, r = test.left, test.ops[0], test.comparators[0]
        if isinstance(op, (ast.Lt, ast.LtE)):
            l, r, op = r, l, (ast.Gt() if isinstance(op, ast.Lt) else ast.GtE())
        if not isinstance(op, (ast.Gt, ast.GtE)):
            return {}
        x = self.is_len_of(l)
        if x is None:
            return {}
        names = {y.id for y in ast.walk(r) if isinstance(y, ast.Name)}
        if x in names or names & set(assigned) or any(isinstance(y, ast.Call) for y in ast.walk(r)):
            return {}
        return {x: (ast.unparse(r), 1 if isinstance(op, ast.Gt) else 0)}

    @staticmethod
    def len_effect(st, x):
        """effect of a statement on `len(x)`: 0 (unchanged), -1 (`x.pop()`, desugared), None (unknown).  Lists are
        only modified through the desugared forms `x = __upd__(x, ..)` / `__set__` / `__droplast__` on a fresh,
        unaliased local (anything else is a `TranslateError` elsewhere), or by rebinding the name."""
        if isinstance(st, ast.Assign) and len(st.targets) == 1 and isinstance(st.targets[0], ast.Name) \
                and st.targets[0].id == x and isinstance(st.value, ast.Call) and isinstance(st.value.func, ast.Name) \
                and st.value.args and isinstance(st.value.args[0], ast.Name) and st.value.args[0].id == x:
            rest = [y for a_ in st.value.args[1:] for y in ast.walk(a_)]
            clean = not any((isinstance(y, ast.Name) and y.id == x and not isinstance(y.ctx, ast.Load))
                            or (isinstance(y, ast.Call) and isinstance(y.func, ast.Attribute)
                                and isinstance(y.func.value, ast.Name) and y.func.value.id == x) for y in rest)
            if clean and st.value.func.id in ("__upd__", "__set__"):
                return 0
            if clean and st.value.func.id == "__droplast__" and len(st.value.args) == 1:
                return -1
            return None
        for y in ast.walk(st):
            if isinstance(y, ast.Name) and y.id == x and not isinstance(y.ctx, ast.Load):
                return None
            if isinstance(y, ast.Call) and isinstance(y.func, ast.Attribute) and isinstance(y.func.value, ast.Name) \
                    and y.func.value.id == x:
                return None          # a method call on the list (`x.pop()`, `x.append(..)` ..)
        return 0

    def step_len_facts(self, env, st):
        """the environment for `st` and what follows it.  (The new facts are already used for `st` itself: they are
        never stronger than the old ones.)"""
        facts = env.get(self.LENFACTS)
        if not facts:
            return env
        new = {}
        for x, (etext, k) in facts.items():
            eff = self.len_effect(st, x)
            if eff is not None:
                new[x] = (etext, k + eff)
        if new == facts:
            return env
        env = dict(env)
        env[self.LENFACTS] = new
        return env

    def while_body_env(self, st, body, assigned, env):
        """environment of the (desugared) body of a `while` loop: the facts of the enclosing code that the body cannot
        invalidate, plus the fact given by the loop test"""
        facts = {x: f for x, f in (env.get(self.LENFACTS) or {}).items()
                 if all(self.len_effect(s_, x) == 0 for s_ in body)
                 and not ({y.id for y in ast.walk(ast.parse(f[0], mode="eval")) if isinstance(y, ast.Name)} & set(assigned))}
        facts.update(self.loop_len_facts(st.test, assigned, env))
        env2 = dict(env)
        env2[self.LENFACTS] = facts
        return env2

    def derived_nonneg(self, e, env):
        """is the subtraction `len(X) - E` / `len(X) - E - c` non-negative by a fact `len(X) >= E + k`?"""
        facts = env.get(self.LENFACTS)
        if not facts or not (isinstance(e, ast.BinOp) and isinstance(e.op, ast.Sub)) or "len" in env:
            return False
        need, inner = 0, e
        c = self.const_eval(e.right)
        if isinstance(e.left, ast.BinOp) and isinstance(e.left.op, ast.Sub) and isinstance(c, int) \
                and not isinstance(c, bool) and c >= 0:
            need, inner = c, e.left
        x = self.is_len_of(inner.left)
        if x is None or x not in facts:
            return False
        etext, k = facts[x]
        return ast.unparse(inner.right) == etext and k >= need

    # ------------------------------------------------------------------ functions / methods
    def ret_type(self, node, over):
        if over is not None:
            return over
        s = ast.unparse(node.returns).strip("'\"") if node.returns is not None else None
        m = {"T_FQ": FQT, "T_FQP": FQPT, "bool": BOOL, "int": INT}
        if s not in m:
            raise TranslateError(f"{node.name}: unsupported return annotation {s!r}")
        return m[s]

    def param_type(self, a, over):
        if a.arg in over:
            return over[a.arg]
        if a.annotation is None:
            raise TranslateError(f"parameter {a.arg} has no annotation")
        s = ast.unparse(a.annotation).strip("'\"")
        m = {"int": INT, "T_FQ": FQT, "T_FQP": FQPT, "bool": BOOL}
        if s not in m:
            raise TranslateError(f"parameter {a.arg}: annotation {s!r} needs an operand-kind override")
        return m[s]

    def header(self, node, cname):
        seg = "\n".join(self.lines[node.lineno - 1: node.end_lineno])
        sha = hashlib.sha256(seg.encode()).hexdigest()[:16]
        q = f"{cname}.{node.name}" if cname else node.name
        return f"/- {self.rel}:{node.lineno}-{node.end_lineno} `{q}` sha256:{sha} -/\n"

    def check_decorators(self, node, allowed):
        got = [ast.unparse(d) for d in node.decorator_list]
        if got != list(allowed):
            raise TranslateError(f"{node.name}: decorators {got}, expected {list(allowed)}")

    def method(self, cname, mname, lean_name, kinds=None, raises=False, ret=None, fuels=(), decorators=(),
               register_as=None, nonneg=()):
        """translate `cname.mname` for the operand kinds `kinds` (parameter name -> translator type)"""
        ci = self.klass[cname]
        node = self.method_ast(cname, mname)
        self.check_decorators(node, decorators)
        kinds = dict(kinds or {})
        a = node.args
        if a.kwonlyargs or a.vararg or a.kwarg or a.posonlyargs or a.defaults:
            raise TranslateError(f"{cname}.{mname}: unsupported parameter kinds")
        if not a.args or a.args[0].arg not in ("self", "cls"):
            raise TranslateError(f"{cname}.{mname}: first parameter must be self / cls")
        selfname = a.args[0].arg
        if (selfname == "cls") != ("classmethod" in decorators):
            raise TranslateError(f"{cname}.{mname}: classmethod mismatch")
        params = [(p.arg, self.param_type(p, kinds)) for p in a.args[1:]]
        rty = self.ret_type(node, ret)
        cpar = self.cparams(ci)
        allp = list(cpar) + ([("self", ci.obj)] if selfname == "self" else []) + params
        names = [n for n, _ in allp]
        if len(set(names)) != len(names):
            raise TranslateError(f"{cname}.{mname}: parameter name clash")
        fn = Fn(f"{cname}.{mname}", allp, rty, raises, None, lean_name=lean_name)
        env = {n: t for n, t in allp}
        cur = {"aux_defs": [], "outline_loops": False}
        self.cls, self.selfname, self.init_attrs = ci, selfname, None
        self.fresh, self.itcount, self.saw_raise = 0, 0, False
        self.fuels, self.loops_done, self.curname = list(fuels), 0, lean_name
        self.fresh_lists = set()
        self.helper_hdrs = []
        save_nonneg = set(self.nonneg)
        self.nonneg |= set(nonneg)
        try:
            src = self.inline_self_aliases(self.normalize_stmts(list(node.body)), ci, selfname, names)
            body = self.block(src, env, fn, cur)
        finally:
            self.nonneg = save_nonneg
        if self.loops_done != len(self.fuels):
            raise TranslateError(f"{cname}.{mname}: {len(self.fuels)} fuel expressions for {self.loops_done} while loops")
        if raises and not self.saw_raise and not any(isinstance(x, ast.Raise) for x in ast.walk(node)):
            raise TranslateError(f"{cname}.{mname}: declared raising but nothing can raise")
        ext = Ext(lean_name, [(n, t) for n, t in allp], rty, raises)
        key = tuple(self.kind_of(t) for _, t in params)
        self.methods.setdefault((cname, register_as or mname), {})[key] = ext
        rs = lty(rty)
        full = f"Except PyErr ({rs})" if raises else rs
        do = " do" if raises else ""
        pdecl = " ".join(f"({lname(n)} : {lty(t)})" for n, t in allp)
        aux = "".join(x + "\n\n" for x in cur["aux_defs"])
        kd = ""
        if kinds:
            kd = "/- operand kinds: " + ", ".join(f"{k} : {kind_name(v)}" for k, v in kinds.items()) + " -/\n"
        hh = "".join(self.helper_hdrs)
        return f"{self.header(node, cname)}{hh}{kd}{aux}def {lean_name} {pdecl} : {full} :={do}\n{indent(body, 2)}\n"

    def method_as(self, sci, cname, mname, lean_name, **kw):
        """translate `cname.mname` with the class-level constants of the subclass described by `sci`"""
        save = self.klass[cname]
        self.klass[cname] = sci
        try:
            return self.method(cname, mname, lean_name, register_as=f"{sci.name}.{mname}", **kw)
        finally:
            self.klass[cname] = save

    def init_method(self, cname, lean_name, kinds, raises=False, sub=None):
        """`__init__` of `cname` (for FQ: returns the value of `n`; for a structure object: the structure).
        With `sub=(subclass names, attribute rename)`, the subclasses' `__init__` (checked to be identical up to
        the name of the class attribute) is translated and the `super().__init__(..)` call is inlined."""
        ci = self.klass[cname]
        hdrs = ""
        if sub is None:
            node = self.method_ast(cname, "__init__")
            self.check_decorators(node, ())
            body, a = list(node.body), node.args
            hdrs = self.header(node, cname)
        else:
            subs, attr_of = sub
            nodes = [self.method_ast(s, "__init__") for s in subs]
            dumps = set()
            for s, n in zip(subs, nodes):
                self.check_decorators(n, ())
                txt = ast.dump(ast.Module(body=n.body, type_ignores=[]))
                txt = txt.replace(attr_of[s], "MODULUS_COEFFS").replace(s + " ", "FQPsub ")
                dumps.add(txt)
                hdrs += self.header(n, s)
                c = self.class_ast(s)
                if [ast.unparse(b) for b in c.bases] != [cname]:
                    raise TranslateError(f"class {s} does not derive from {cname} only")
            if len(dumps) != 1:
                raise TranslateError(f"the constructors of {subs} differ by more than the name of the modulus attribute")
            node = nodes[0]
            s0 = subs[0]
            renamer = _RenameAttr(attr_of[s0], "MODULUS_COEFFS")
            body = [renamer.visit(copy.deepcopy(b)) for b in node.body]
            a = node.args
            base = self.method_ast(cname, "__init__")
            hdrs += self.header(base, cname)
        if a.kwonlyargs or a.vararg or a.kwarg or a.posonlyargs or a.defaults:
            raise TranslateError(f"{cname}.__init__: unsupported parameter kinds")
        if ast.unparse(node.returns) != "None":
            raise TranslateError(f"{cname}.__init__ must return None")
        params = [(p.arg, self.param_type(p, kinds)) for p in a.args[1:]]
        cpar = self.cparams(ci)
        allp = list(cpar) + params
        fn = Fn(f"{cname}.__init__", allp, ci.obj, raises, None, lean_name=lean_name)
        env = {n: t for n, t in allp}
        cur = {"aux_defs": [], "outline_loops": False}
        self.cls, self.selfname, self.init_attrs = ci, "self", {}
        self.fresh, self.itcount, self.saw_raise = 0, 0, False
        self.fuels, self.loops_done, self.curname = [], 0, lean_name
        self.fresh_lists = set()
        self.helper_hdrs = []
        if sub is not None:
            body = self.inline_super(body, cname, kinds)
        body = self.normalize_stmts(body)
        done = ast.Return(value=ast.Name(id="__INIT_DONE__", ctx=ast.Load()))
        self.init_done = (ci, raises)
        try:
            txt = self.block(body + [done], env, fn, cur)
        finally:
            self.init_attrs = None
        if cur["aux_defs"]:
            raise TranslateError("loops in __init__")
        ext = Ext(lean_name, list(allp), ci.obj, raises)
        key = tuple(self.kind_of(t) for _, t in params)
        target = "FQPsub" if sub is not None else cname
        self.methods.setdefault((target, "__init__"), {})[key] = ext
        rs = lty(ci.obj)
        full = f"Except PyErr ({rs})" if raises else rs
        do = " do" if raises else ""
        pdecl = " ".join(f"({lname(n)} : {lty(t)})" for n, t in allp)
        kd = "/- operand kinds: " + ", ".join(f"{k} : {kind_name(v)}" for k, v in kinds.items()) + " -/\n"
        hdrs += "".join(self.helper_hdrs)
        return f"{hdrs}{kd}def {lean_name} {pdecl} : {full} :={do}\n{indent(txt, 2)}\n"

    def inline_super(self, body, base, kinds):
        """replace the final `super().__init__(args)` by the body of the base class constructor"""
        if not body:
            raise TranslateError("empty __init__")
        last = body[-1]
        if not (isinstance(last, ast.Expr) and isinstance(last.value, ast.Call)
                and ast.unparse(last.value.func) == "super().__init__" and not last.value.keywords):
            raise TranslateError("subclass __init__ must end with super().__init__(..)")
        for st in body[:-1]:
            for x in ast.walk(st):
                if isinstance(x, ast.Call) and ast.unparse(x.func).startswith("super()"):
                    raise TranslateError("super() call before the end of __init__")
        bnode = self.method_ast(base, "__init__")
        self.check_decorators(bnode, ())
        ba = bnode.args
        if ba.kwonlyargs or ba.vararg or ba.kwarg or ba.posonlyargs:
            raise TranslateError("base __init__ parameter kinds")
        bparams = [p.arg for p in ba.args[1:]]
        args = last.value.args
        if len(args) != len(bparams):
            raise TranslateError("super().__init__ must pass every parameter positionally")
        # bind the base parameters (a parameter passed under its own name needs no binding)
        binds = []
        for p, arg in zip(bparams, args):
            if isinstance(arg, ast.Name) and arg.id == p:
                continue
            binds.append(ast.Assign(targets=[ast.Name(id=p, ctx=ast.Store())], value=arg))
        for st in binds:
            used = self.names_in([st.value])
            if used & {b.targets[0].id for b in binds}:
                raise TranslateError("super().__init__ arguments mention base parameter names")
        return body[:-1] + binds + list(bnode.body)

    def ret_stmt(self, value, env, fn):
        if isinstance(value, ast.Name) and value.id == "__INIT_DONE__":
            ci, raises = self.init_done
            if ci.fields is None:
                if list(self.init_attrs) != ["n"] or self.init_attrs["n"] != INT:
                    raise TranslateError(f"FQ.__init__ must assign exactly the attribute n (an int): {self.init_attrs}")
                val = "self_n"
            else:
                got = {k: v for k, v in self.init_attrs.items() if not (isinstance(v, tuple) and v[0] == "class")}
                if got != dict(ci.fields):
                    raise TranslateError(f"{ci.name}.__init__ assigns {got}, the object structure is {dict(ci.fields)}")
                val = "{ " + ", ".join(f"{k} := self_{k}" for k in ci.fields) + " }"
            return f"return {val}" if raises else val
        return super().ret_stmt(value, env, fn)

    def function_x(self, name, lean_name, kinds=None, raises=False, ret=None, positive_params=(), fuels=(), nonneg=()):
        """a module-level function with isinstance dispatch on its parameters; `positive_params` are int parameters
        used as divisors: every translated call must pass a provably positive value for them"""
        node = None
        for n in self.tree.body:
            if isinstance(n, ast.FunctionDef) and n.name == name:
                node = n
        if node is None:
            raise TranslateError(f"function {name} not found")
        self.check_decorators(node, ())
        kinds = dict(kinds or {})
        a = node.args
        if a.kwonlyargs or a.vararg or a.kwarg or a.posonlyargs or a.defaults:
            raise TranslateError(f"{name}: unsupported parameter kinds")
        params = [(p.arg, self.param_type(p, kinds)) for p in a.args]
        rty = self.ret_type(node, ret)
        fn = Fn(name, params, rty, raises, None, lean_name=lean_name)
        env = {n: t for n, t in params}
        cur = {"aux_defs": [], "outline_loops": False}
        self.cls, self.selfname, self.init_attrs = ClassInfo("<module>", None, {}), None, None
        self.fresh, self.itcount, self.saw_raise = 0, 0, False
        self.fuels, self.loops_done, self.curname = list(fuels), 0, lean_name
        self.fresh_lists = set()
        self.helper_hdrs = []
        save_pos, save_nonneg = set(self.positive), set(self.nonneg)
        self.positive |= set(positive_params)
        self.nonneg |= set(nonneg)
        try:
            body = self.block(self.normalize_stmts(list(node.body)), env, fn, cur)
        finally:
            self.positive, self.nonneg = save_pos, save_nonneg
        if self.loops_done != len(self.fuels):
            raise TranslateError(f"{name}: {len(self.fuels)} fuel expressions for {self.loops_done} while loops")
        ext = Ext(lean_name, list(params), rty, raises)
        ext.positive_params = set(positive_params)
        key = tuple(self.kind_of(t) for _, t in params)
        if "module_fns" not in self.__dict__:
            self.module_fns = {}
        self.module_fns.setdefault(name, {})[key] = ext
        pdecl = " ".join(f"({lname(n)} : {lty(t)})" for n, t in params)
        kd = "/- operand kinds: " + ", ".join(f"{k} : {kind_name(v)}" for k, v in kinds.items()) + " -/\n" if kinds else ""
        aux = "".join(x + "\n\n" for x in cur["aux_defs"])
        hh = "".join(self.helper_hdrs)
        return f"{self.header(node, '')}{hh}{kd}{aux}def {lean_name} {pdecl} : {lty(rty)} :=\n{indent(body, 2)}\n"


class _RenameAttr(ast.NodeTransformer):
    def __init__(self, old, new):
        self.old, self.new = old, new

    def visit_Attribute(self, node):
        self.generic_visit(node)
        if node.attr == self.old:
            node.attr = self.new
        return node

    def visit_Constant(self, node):
        if node.value == self.old:
            return ast.copy_location(ast.Constant(value=self.new), node)
        return node


def kind_name(t):
    if t == FQT:
        return "FQ"
    if t == FQPT:
        return "FQP"
    if t == INT:
        return "int"
    if is_list(t):
        return f"sequence of {kind_name(t[1])}"
    return str(t)


def paren_ty(s):
    return f"({s})" if " " in s else s
