#!/usr/bin/env python3
"""
Mutation self-test of the FIELD-layer tie theorems (lean/PyEcc/Props/TieFields*.lean).

Same procedure as tie_selftest.py: for every entry of MUTATIONS copy the repository, replace ONE occurrence of a token
inside the named function / method (`Class.method`), regenerate Gen/*.lean from the mutated tree and check that
`lake build <TieFields modules>` now FAILS (translator refusal, or the generated file / a tie theorem no longer
compiles).  Finally regenerate from the pristine tree and check that the build succeeds again.

  tie_selftest_fields.py --repo /repo --lean /path/to/lean [--only REGEX] [--work /tmp/tie_selftest_fields]
"""
import argparse
import ast
import json
import os
import re
import shutil
import sys
import time

HERE = os.path.dirname(os.path.abspath(__file__))
sys.path.insert(0, HERE)
from tie_selftest import run  # noqa: E402
import gen_fields  # noqa: E402
from gen import write_if_changed  # noqa: E402
from py2lean import TranslateError  # noqa: E402


def regenerate(repo, gen_out):
    """run ONLY the field-layer jobs of gen.py (same job table, same write-if-changed); the rest of gen.py imports the
    mutated package to dump its constants, which is irrelevant here and can take minutes when a mutation breaks it"""
    changed, errors = [], []
    for name, job in gen_fields.jobs(repo, lambda: None):
        try:
            if write_if_changed(os.path.join(gen_out, name + ".lean"), job()):
                changed.append(name)
        except (TranslateError, SyntaxError, KeyError) as e:
            errors.append((name, f"{type(e).__name__}: {e}"))
    return (3 if errors else 0), {"changed": changed, "errors": errors}

U = "py_ecc/utils.py"
R = "py_ecc/fields/field_elements.py"
O = "py_ecc/fields/optimized_field_elements.py"

TARGETS = ["PyEcc.Props.TieFieldsFq", "PyEcc.Props.TieFieldsFqp", "PyEcc.Props.TieFieldsMul", "PyEcc.Props.TieFieldsPoly"]

# (id, file, function or Class.method, old text, new text, occurrence index within the function's source)
MUTATIONS = [
    ("pfi-guard", U, "prime_field_inv", "low > 1", "low > 0", 0),
    ("pfi-sign", U, "prime_field_inv", "hm - lm * r", "hm + lm * r", 0),
    ("pfi-ret", U, "prime_field_inv", "return lm % n", "return hm % n", 0),
    ("pfi-zero", U, "prime_field_inv", "if a == 0", "if a == 1", 0),
    ("pfi-reduce", U, "prime_field_inv", "    a %= n\n", "", 0),
    ("pfi-rotate", U, "prime_field_inv", "nm, new, lm, low", "nm, new, low, lm", 0),
]

# the class FQ is the same in both modules: the same mutations are applied to each
FQ_MUTATIONS = [
    ("init-mod", "FQ.__init__", "val % self.field_modulus", "val", 0),
    ("init-copy", "FQ.__init__", "self.n = val.n", "self.n = val.n + 1", 0),
    ("init-branch", "FQ.__init__", "isinstance(val, FQ)", "isinstance(val, int)", 0),
    ("add-op", "FQ.__add__", "(self.n + on)", "(self.n - on)", 0),
    ("add-on", "FQ.__add__", "on = other.n", "on = other.n + 1", 0),
    ("add-onint", "FQ.__add__", "            on = other\n", "            on = other * 2\n", 0),
    ("mul-op", "FQ.__mul__", "self.n * on", "self.n + on", 0),
    ("mul-onint", "FQ.__mul__", "            on = other\n", "            on = other * 2\n", 0),
    ("mul-mod", "FQ.__mul__", ") % self.field_modulus", ") % (self.field_modulus + 1)", 0),
    ("rmul-op", "FQ.__rmul__", "return self * other", "return self + other", 0),
    ("rmul-arg", "FQ.__rmul__", "return self * other", "return self * self", 0),
    ("radd-op", "FQ.__radd__", "return self + other", "return self * other", 0),
    ("radd-arg", "FQ.__radd__", "return self + other", "return self + self", 0),
    ("rsub-order", "FQ.__rsub__", "(on - self.n)", "(self.n - on)", 0),
    ("rsub-mod", "FQ.__rsub__", ") % self.field_modulus", ") % (self.field_modulus + 1)", 0),
    ("sub-order", "FQ.__sub__", "(self.n - on)", "(on - self.n)", 0),
    ("sub-on", "FQ.__sub__", "on = other.n", "on = -other.n", 0),
    ("div-arg", "FQ.__div__", "prime_field_inv(on,", "prime_field_inv(on + 1,", 0),
    ("div-op", "FQ.__div__", "self.n * prime_field_inv", "self.n + prime_field_inv", 0),
    ("truediv-deleg", "FQ.__truediv__", "self.__div__(other)", "self.__rdiv__(other)", 0),
    ("truediv-arg", "FQ.__truediv__", "self.__div__(other)", "self.__div__(self)", 0),
    ("rdiv-op", "FQ.__rdiv__", "self.field_modulus) * on", "self.field_modulus) + on", 0),
    ("rdiv-arg", "FQ.__rdiv__", "prime_field_inv(self.n,", "prime_field_inv(on,", 0),
    ("rtruediv-deleg", "FQ.__rtruediv__", "self.__rdiv__(other)", "self.__div__(other)", 0),
    ("rtruediv-arg", "FQ.__rtruediv__", "self.__rdiv__(other)", "self.__rdiv__(self)", 0),
    ("pow-mask", "FQ.__pow__", "other & 1", "other & 3", 0),
    ("pow-shift", "FQ.__pow__", "other >>= 1", "other >>= 2", 0),
    ("pow-order", "FQ.__pow__", "o = o * t", "o = t * o", 0),
    ("pow-square", "FQ.__pow__", "t = t * t", "t = t * o", 0),
    ("pow-init", "FQ.__pow__", "type(self)(1)", "type(self)(0)", 0),
    ("pow-guard", "FQ.__pow__", "while other > 0", "while other > 1", 0),
    ("eq-fq", "FQ.__eq__", "self.n == other.n", "self.n != other.n", 0),
    ("eq-int", "FQ.__eq__", "self.n == other\n", "self.n == other + 1\n", 0),
    ("ne-not", "FQ.__ne__", "not self == other", "self == other", 0),
    ("ne-arg", "FQ.__ne__", "not self == other", "not self == self", 0),
    ("neg-sign", "FQ.__neg__", "-self.n", "self.n", 0),
    ("neg-off", "FQ.__neg__", "type(self)(-self.n)", "type(self)(-self.n - 1)", 0),
    ("int-off", "FQ.__int__", "return self.n", "return self.n + 1", 0),
    ("int-neg", "FQ.__int__", "return self.n", "return -self.n", 0),
    ("lt-le", "FQ.__lt__", "self.n < on", "self.n <= on", 0),
    ("lt-on", "FQ.__lt__", "on = other.n", "on = other.n - 1", 0),
    ("one-zero", "FQ.one", "cls(1)", "cls(0)", 0),
    ("one-two", "FQ.one", "cls(1)", "cls(2)", 0),
    ("zero-one", "FQ.zero", "cls(0)", "cls(1)", 0),
    ("zero-neg", "FQ.zero", "cls(0)", "cls(-1)", 0),
]
for tag, rel in (("ref", R), ("opt", O)):
    for mid, fn, old, new, occ in FQ_MUTATIONS:
        MUTATIONS.append((f"{tag}-fq-{mid}", rel, fn, old, new, occ))
MUTATIONS += [
    ("opt-fq-sgn0-mod", O, "FQ.sgn0", "self.n % 2", "self.n % 3", 0),
    ("opt-fq-sgn0-off", O, "FQ.sgn0", "self.n % 2", "(self.n + 1) % 2", 0),
    ("opt-fq-sgn0-deco", O, "FQ.sgn0", "@cached_property", "@property", 0),
]


# the classes FQP / FQ2 / FQ12: mutations common to both modules ...
FQP_COMMON = [
    ("fq12-init-args", "FQ12.__init__", "coeffs, self.FQ12_MODULUS_COEFFS", "coeffs, coeffs", 0),
    ("fq2-init-hasattr", "FQ2.__init__", 'hasattr(self, "FQ2_MODULUS_COEFFS")', 'hasattr(self, "FQ2_MODULUS")', 0),
    ("fq12-init-hasattr", "FQ12.__init__", 'if not hasattr(self, "FQ12_MODULUS_COEFFS")', 'if hasattr(self, "FQ12_MODULUS_COEFFS")', 0),
    ("fq2-init-swap", "FQ2.__init__", "coeffs, self.FQ2_MODULUS_COEFFS", "self.FQ2_MODULUS_COEFFS, coeffs", 0),
    ("init-lencheck", "FQP.__init__", "len(coeffs) != len(modulus_coeffs)", "len(coeffs) < len(modulus_coeffs)", 0),
    ("init-degree", "FQP.__init__", "self.degree = len(self.modulus_coeffs)", "self.degree = len(self.modulus_coeffs) + 1", 0),
    ("init-exc", "FQP.__init__", "raise Exception(", "raise ValueError(", 0),
    ("init-mc", "FQP.__init__", "tuple(modulus_coeffs)", "tuple(coeffs)", 0),
    ("add-zip", "FQP.__add__", "zip(self.coeffs, other.coeffs)", "zip(other.coeffs, self.coeffs)", 0),
    ("add-op", "FQP.__add__", "x + y", "x - y", 0),
    ("sub-op", "FQP.__sub__", "x - y", "y - x", 0),
    ("sub-zip", "FQP.__sub__", "zip(self.coeffs, other.coeffs)", "zip(self.coeffs, self.coeffs)", 0),
    ("neg-id", "FQP.__neg__", "-c for c", "c for c", 0),
    ("neg-double", "FQP.__neg__", "-c for c", "-(-c) for c", 0),
    ("rmul-swap", "FQP.__rmul__", "self * other", "other * self", 0),
    ("rmul-self", "FQP.__rmul__", "self * other", "self * self", 0),
    ("truediv-deleg", "FQP.__truediv__", "self.__div__(other)", "self.__mul__(other)", 0),
    ("truediv-arg", "FQP.__truediv__", "self.__div__(other)", "self.__div__(other + 1)", 0),
    ("pow-one", "FQP.__pow__", "[1] + [0] * (self.degree - 1)", "[0] + [0] * (self.degree - 1)", 0),
    ("pow-len", "FQP.__pow__", "[1] + [0] * (self.degree - 1)", "[1] + [0] * self.degree", 0),
    ("pow-shift", "FQP.__pow__", "other >>= 1", "other >>= 2", 0),
    ("pow-order", "FQP.__pow__", "o = o * t", "o = t * o", 0),
    ("pow-square", "FQP.__pow__", "t = t * t", "t = t * o", 0),
    ("pow-mask", "FQP.__pow__", "other & 1", "other & 3", 0),
    ("pow-guard", "FQP.__pow__", "while other > 0", "while other >= 0", 0),
    ("eq-cmp", "FQP.__eq__", "c1 != c2", "c1 == c2", 0),
    ("eq-ret", "FQP.__eq__", "return False", "return True", 0),
    ("eq-zip", "FQP.__eq__", "zip(self.coeffs, other.coeffs)", "zip(self.coeffs, self.coeffs)", 0),
    ("ne-not", "FQP.__ne__", "not self == other", "self == other", 0),
    ("ne-arg", "FQP.__ne__", "not self == other", "not self == self", 0),
    ("one-len", "FQP.one", "[1] + [0] * (cls.degree - 1)", "[1] + [0] * cls.degree", 0),
    ("one-val", "FQP.one", "[1] + [0]", "[2] + [0]", 0),
    ("zero-val", "FQP.zero", "[0] * cls.degree", "[1] * cls.degree", 0),
    ("zero-len", "FQP.zero", "[0] * cls.degree", "[0] * (cls.degree - 1)", 0),
    ("fq2-degree", "FQ2:class", "degree: int = 2", "degree: int = 3", 0),
    ("fq12-degree", "FQ12:class", "degree: int = 12", "degree: int = 11", 0),
    ("fq12-base", "FQ12:class", "class FQ12(FQP)", "class FQ12(FQ2)", 0),
]
for tag, rel in (("ref", R), ("opt", O)):
    for mid, fn, old, new, occ in FQP_COMMON:
        MUTATIONS.append((f"{tag}-fqp-{mid}", rel, fn, old, new, occ))
# ... and the ones specific to each module
MUTATIONS += [
    ("ref-fqp-init-wrap", R, "FQP.__init__", "self.FQP_corresponding_FQ_class(c) for c in coeffs", "c for c in coeffs", 0),
    ("ref-fqp-init-alias", R, "FQP.__init__", '{"field_modulus": self.field_modulus}', '{"field_modulus": self.field_modulus + 1}', 0),
    ("ref-fqp-mulint-op", R, "FQP.__mul__", "c * other for c in self.coeffs", "c + other for c in self.coeffs", 0),
    ("ref-fqp-mulint-src", R, "FQP.__mul__", "c * other for c in self.coeffs", "c * other for c in self.modulus_coeffs", 0),
    ("ref-fqp-mul-acc", R, "FQP.__mul__", "b[i + j] += ", "b[i + j] -= ", 0),
    ("ref-fqp-mul-idx", R, "FQP.__mul__", "self.coeffs[i] * other.coeffs[j]", "self.coeffs[j] * other.coeffs[i]", 0),
    ("ref-fqp-mul-buf", R, "FQP.__mul__", "range(self.degree * 2 - 1)", "range(self.degree * 2)", 0),
    ("ref-fqp-mul-init", R, "FQP.__mul__", "self.FQP_corresponding_FQ_class(0)", "self.FQP_corresponding_FQ_class(1)", 0),
    ("ref-fqp-mul-guard", R, "FQP.__mul__", "len(b) > self.degree", "len(b) >= self.degree", 0),
    ("ref-fqp-mul-exp", R, "FQP.__mul__", "len(b) - self.degree - 1, b.pop()", "len(b) - self.degree, b.pop()", 0),
    ("ref-fqp-mul-evalorder", R, "FQP.__mul__", "exp, top = len(b) - self.degree - 1, b.pop()",
     "top, exp = b.pop(), len(b) - self.degree - 1", 0),
    ("ref-fqp-mul-redsign", R, "FQP.__mul__", "b[exp + i] -= top", "b[exp + i] += top", 0),
    ("ref-fqp-mul-mcidx", R, "FQP.__mul__", "self.modulus_coeffs[i]", "self.modulus_coeffs[0]", 0),
    ("ref-fqp-mul-inner", R, "FQP.__mul__", "for j in range(self.degree)", "for j in range(self.degree - 1)", 0),
    ("ref-fqp-mul-nowrap", R, "FQP.__mul__", "top * self.FQP_corresponding_FQ_class(\n                        self.modulus_coeffs[i]\n                    )",
     "top * self.modulus_coeffs[i]", 0),
    ("ref-fqp-div-op", R, "FQP.__div__", "c / other if", "c * other if", 0),
    ("ref-fqp-div-inst", R, "FQP.__div__", "isinstance(c, FQ)", "isinstance(c, int)", 0),
    ("opt-fqp-fq2-mctuples", O, "FQ2.__init__", "enumerate(self.FQ2_MODULUS_COEFFS) if c", "enumerate(self.FQ2_MODULUS_COEFFS) if not c", 0),
    ("opt-fqp-fq2-mcorder", O, "FQ2.__init__", "(i, c) for i, c in", "(c, i) for i, c in", 0),
    ("opt-fqp-fq12-mctuples", O, "FQ12.__init__", " if c]", "]", 0),
    ("opt-fqp-init-reduce", O, "FQP.__init__", "coeff % self.field_modulus", "coeff", 0),
    ("opt-fqp-init-inst", O, "FQP.__init__", "isinstance(coeffs[0], int)", "isinstance(coeffs[0], FQ)", 0),
    # (dropping the `% self.field_modulus` of optimized __add__ / __div__ is an EQUIVALENT mutant: the constructor reduces
    #  every int coefficient again, so the method computes the same object and the tie theorem rightly still holds)
    ("opt-fqp-add-mul", O, "FQP.__add__", "int(x + y) % self.field_modulus", "int(x * y) % self.field_modulus", 0),
    ("opt-fqp-add-off", O, "FQP.__add__", "int(x + y) % self.field_modulus", "int(x + y + 1) % self.field_modulus", 0),
    ("opt-fqp-sub-mod", O, "FQP.__sub__", "% self.field_modulus", "% (self.field_modulus + 1)", 0),
    ("opt-fqp-mulint-op", O, "FQP.__mul__", "int(c) * other % self.field_modulus", "int(c) + other % self.field_modulus", 0),
    ("opt-fqp-mulint-src", O, "FQP.__mul__", "for c in self.coeffs", "for c in self.modulus_coeffs", 0),
    ("opt-fqp-mul-buf", O, "FQP.__mul__", "[0] * (self.degree * 2 - 1)", "[0] * (self.degree * 2)", 0),
    ("opt-fqp-mul-prod", O, "FQP.__mul__", "b[i + j] += int(eli * elj)", "b[i + j] += int(eli + elj)", 0),
    ("opt-fqp-mul-acc", O, "FQP.__mul__", "b[i + j] += int(eli * elj)", "b[i + j] -= int(eli * elj)", 0),
    ("opt-fqp-mul-enum", O, "FQP.__mul__", "enumerate(other.coeffs)", "enumerate(self.coeffs)", 0),
    ("opt-fqp-mul-range", O, "FQP.__mul__", "range(self.degree - 2, -1, -1)", "range(self.degree - 1, -1, -1)", 0),
    ("opt-fqp-mul-redsign", O, "FQP.__mul__", "b[exp + i] -= top * c", "b[exp + i] += top * c", 0),
    ("opt-fqp-mul-tuples", O, "FQP.__mul__", "in self.mc_tuples", "in inner_enumerate", 0),
    ("opt-fqp-mul-pop", O, "FQP.__mul__", "top = b.pop()", "top = b[0]", 0),
    ("opt-fqp-mul-idx", O, "FQP.__mul__", "b[i + j] +=", "b[i + i] +=", 0),
    ("opt-fqp-div-arg", O, "FQP.__div__", "prime_field_inv(other, self.field_modulus)", "prime_field_inv(other + 1, self.field_modulus)", 0),
    ("opt-fqp-div-op", O, "FQP.__div__", "                    * prime_field_inv", "                    + prime_field_inv", 0),
    ("opt-modint-div", O, "mod_int", "return x % n", "return x // n", 0),
    ("opt-modint-fq", O, "mod_int", "return x.n % n", "return x.n // n", 0),
    ("opt-modint-inst", O, "mod_int", "isinstance(x, int)", "isinstance(x, FQ)", 0),
    ("opt-fqp-sgn0-sign", O, "FQP.sgn0", "sign = 0", "sign = 1", 0),
    ("opt-fqp-sgn0-zero", O, "FQP.sgn0", "zero = 1", "zero = 0", 0),
    ("opt-fqp-sgn0-logic", O, "FQP.sgn0", "sign or (zero and sign_i)", "sign and (zero or sign_i)", 0),
    ("opt-fqp-sgn0-zlogic", O, "FQP.sgn0", "zero and zero_i", "zero or zero_i", 0),
    ("opt-fqp-sgn0-mod", O, "FQP.sgn0", "mod_int(x_i, 2)", "mod_int(x_i, 3)", 0),
    ("opt-fqp-sgn0-cmp", O, "FQP.sgn0", "x_i == 0", "x_i == 1", 0),
    ("opt-fq2-sgn0-logic", O, "FQ2.sgn0", "sign_0 or (zero_0 and sign_1)", "sign_0 and (zero_0 or sign_1)", 0),
    ("opt-fq2-sgn0-arg", O, "FQ2.sgn0", "mod_int(x_1, 2)", "mod_int(x_0, 2)", 0),
    ("opt-fq2-sgn0-unpack", O, "FQ2.sgn0", "x_0, x_1 = self.coeffs", "x_1, x_0 = self.coeffs", 0),
]

# deg, optimized rounded division, optimized inverse / division
MUTATIONS += [
    ("deg-len", U, "deg", "len(p) - 1", "len(p) - 2", 0),
    ("deg-or", U, "deg", "p[d] == 0 and d", "p[d] == 0 or d", 0),
    ("deg-step", U, "deg", "d -= 1", "d -= 2", 0),
    ("deg-cmp", U, "deg", "p[d] == 0", "p[d] == 1", 0),
    ("deg-ret", U, "deg", "return d", "return d + 1", 0),
    ("oprd-range", O, "FQP.optimized_poly_rounded_div", "dega - degb", "degb - dega", 0),
    ("oprd-lead", O, "FQP.optimized_poly_rounded_div", "temp[degb + i]", "temp[dega + i]", 0),
    ("oprd-inv", O, "FQP.optimized_poly_rounded_div", "int(b[degb])", "int(b[dega])", 0),
    ("oprd-inner", O, "FQP.optimized_poly_rounded_div", "range(degb + 1)", "range(degb)", 0),
    ("oprd-sign", O, "FQP.optimized_poly_rounded_div", "temp[c + i] - o[c]", "temp[c + i] + o[c]", 0),
    ("oprd-take", O, "FQP.optimized_poly_rounded_div", "o[: deg(o) + 1]", "o[: deg(o)]", 0),
    ("oprd-reduce", O, "FQP.optimized_poly_rounded_div", "x % self.field_modulus for x in o", "x for x in o", 0),
    ("oprd-init", O, "FQP.optimized_poly_rounded_div", "o = [0 for x in a]", "o = [1 for x in a]", 0),
    ("oprd-acc", O, "FQP.optimized_poly_rounded_div", "                o[i]\n                + temp", "                o[i]\n                - temp", 0),
    ("inv-lm", O, "FQP.inv", "[1] + [0] * self.degree", "[0] + [0] * self.degree", 0),
    ("inv-low", O, "FQP.inv", "self.coeffs + (0,)", "self.coeffs + (1,)", 0),
    ("inv-high", O, "FQP.inv", "self.modulus_coeffs + (1,)", "self.modulus_coeffs + (0,)", 0),
    ("inv-guard", O, "FQP.inv", "while deg(low)", "while deg(high)", 0),
    ("inv-divargs", O, "FQP.inv", "optimized_poly_rounded_div(high, low)", "optimized_poly_rounded_div(low, high)", 0),
    ("inv-nmsign", O, "FQP.inv", "nm[i + j] -= lm[i] * int(r[j])", "nm[i + j] += lm[i] * int(r[j])", 0),
    ("inv-newsrc", O, "FQP.inv", "new[i + j] -= low[i] * r[j]", "new[i + j] -= lm[i] * r[j]", 0),
    ("inv-jrange", O, "FQP.inv", "range(self.degree + 1 - i)", "range(self.degree + 1)", 0),
    ("inv-rotate", O, "FQP.inv", "lm, low, hm, high = nm, new, lm, low", "lm, low, hm, high = nm, new, hm, high", 0),
    ("inv-nmreduce", O, "FQP.inv", "nm = [x % self.field_modulus for x in nm]", "nm = [x for x in nm]", 0),
    ("inv-take", O, "FQP.inv", "lm[: self.degree]", "lm[: self.degree + 1]", 0),
    ("inv-low0", O, "FQP.inv", "int(low[0])", "int(low[1])", 0),
    ("inv-alias", O, "FQP.inv", "nm = [x for x in hm]", "nm = hm", 0),
    ("inv-pad", O, "FQP.inv", "r += [0] * (self.degree + 1 - len(r))", "r += [0] * (self.degree - len(r))", 0),
    ("opt-fqp-divfqp-swap", O, "FQP.__div__", "self * other.inv()", "other * self.inv()", 0),
    ("opt-fqp-divfqp-noinv", O, "FQP.__div__", "self * other.inv()", "self * other", 0),
]

# Mutations of the REFACTORED spellings (refactorings/C08-g5-inv-mul-local-cleanup, C14-g5-fq2-fq12-init-extract-helper,
# C20-g5-sgn0-guard-clauses): run with `--refactored --repo <snapshot with the patch applied>`; entries whose token does
# not occur in the given tree are skipped.  They check that the normalisations of the translator and the reshaping-
# tolerant tie proofs still reject real changes.
REFACTORED = [
    ("rf-pfi-sign", U, "prime_field_inv", "high_coeff - low_coeff * quotient", "high_coeff + low_coeff * quotient", 0),
    ("rf-pfi-swap", U, "prime_field_inv", "low, high = high - low * quotient, low", "low, high = high - low * quotient, high", 0),
    ("rf-pfi-init", U, "prime_field_inv", "low, high = a, n", "low, high = a + n, n", 0),
    ("rf-pfi-ret", U, "prime_field_inv", "return low_coeff % n", "return high_coeff % n", 0),
    ("rf-pfi-coeffs", U, "prime_field_inv", "low_coeff, high_coeff = 1, 0", "low_coeff, high_coeff = 0, 1", 0),
    ("rf-mul-exp", R, "FQP.__mul__", "exp = len(b) - degree", "exp = len(b) - degree + 1", 0),
    ("rf-mul-exp-under", R, "FQP.__mul__", "exp = len(b) - degree", "exp = len(b) - degree - 1", 0),
    ("rf-mul-alias", R, "FQP.__mul__", "degree = self.degree", "degree = self.degree + 1", 0),
    ("rf-mul-alias-attr", R, "FQP.__mul__", "degree = self.degree", "degree = len(other.coeffs)", 0),
    ("rf-mul-tofq-idx", R, "FQP.__mul__", "to_fq(self.modulus_coeffs[i])", "to_fq(self.modulus_coeffs[0])", 0),
    ("rf-mul-tofq-init", R, "FQP.__mul__", "to_fq(0)", "to_fq(1)", 0),
    ("rf-mul-poporder", R, "FQP.__mul__", "top = b.pop()\n                exp = len(b) - degree",
     "exp = len(b) - degree\n                top = b.pop()", 0),
    ("rf-mul-guard", R, "FQP.__mul__", "while len(b) > degree", "while len(b) >= degree", 0),
    ("rf-helper-cond", O, "nonzero_modulus_terms", "if coefficient:", "if not coefficient:", 0),
    ("rf-helper-order", O, "nonzero_modulus_terms", "terms.append((exponent, coefficient))", "terms.append((exponent, exponent))", 0),
    ("rf-helper-iter", O, "nonzero_modulus_terms", "enumerate(modulus_coeffs)", "enumerate(modulus_coeffs[:1])", 0),
    ("rf-helper-extra", O, "nonzero_modulus_terms", "    return terms", "    terms.append((0, 1))\n    return terms", 0),
    ("rf-helper-arg", O, "FQ2.__init__", "nonzero_modulus_terms(self.FQ2_MODULUS_COEFFS)", "nonzero_modulus_terms(coeffs)", 0),
    ("rf-sgn0-guard", O, "FQP.sgn0", "if not sign:", "if sign:", 0),
    ("rf-sgn0-val", O, "FQP.sgn0", "sign = all_lower_zero and parity", "sign = all_lower_zero or parity", 0),
    ("rf-sgn0-zero", O, "FQP.sgn0", "all_lower_zero and coeff_is_zero", "all_lower_zero or coeff_is_zero", 0),
    ("rf-fq2-sgn0-early", O, "FQ2.sgn0", "return low_parity\n", "return high_parity\n", 0),
    ("rf-fq2-sgn0-ifexp", O, "FQ2.sgn0", "high_parity if low_is_zero else low_is_zero", "low_is_zero if low_is_zero else high_parity", 0),
    ("rf-fq2-sgn0-guard", O, "FQ2.sgn0", "if low_parity:", "if high_parity:", 0),
    ("rf-modint-fq", O, "mod_int", "return x.n % n", "return x.n // n", 0),
    ("rf-modint-order", O, "mod_int", "    if isinstance(x, FQ):\n        return x.n % n", "    if isinstance(x, FQ):\n        return x.n % (n + 1)", 0),
]


def fn_span(src, qual):
    tree = ast.parse(src)
    if qual.endswith(":class"):
        for n in tree.body:
            if isinstance(n, ast.ClassDef) and n.name == qual[:-6]:
                return n.lineno - 1, n.end_lineno
        raise SystemExit(f"class {qual} not found")
    if "." in qual:
        cname, fname = qual.split(".")
        scopes = [n for n in tree.body if isinstance(n, ast.ClassDef) and n.name == cname]
    else:
        fname, scopes = qual, [tree]
    for sc in scopes:
        for n in sc.body:
            if isinstance(n, ast.FunctionDef) and n.name == fname:
                first = min([n.lineno] + [d.lineno for d in n.decorator_list])
                return first - 1, n.end_lineno
    raise SystemExit(f"function {qual} not found")


def mutate(repo_mut, rel, fn, old, new, occ):
    p = os.path.join(repo_mut, rel)
    src = open(p).read()
    lines = src.split("\n")
    a, b = fn_span(src, fn)
    seg = "\n".join(lines[a:b]) + "\n"
    idxs = [m.start() for m in re.finditer(re.escape(old), seg)]
    if len(idxs) <= occ:
        raise SystemExit(f"{rel}:{fn}: token {old!r} occurrence {occ} not found")
    i = idxs[occ]
    seg2 = seg[:i] + new + seg[i + len(old):]
    open(p, "w").write("\n".join(lines[:a]) + "\n" + seg2 + "\n".join(lines[b:]))


def main():
    ap = argparse.ArgumentParser()
    ap.add_argument("--repo", default="/repo")
    ap.add_argument("--lean", required=True)
    ap.add_argument("--work", default="/tmp/tie_selftest_fields")
    ap.add_argument("--only", default=None, help="regex on mutation ids")
    ap.add_argument("--targets", default=None, help="comma separated lake targets")
    ap.add_argument("--skip-missing", action="store_true", help="skip mutations whose token does not occur in --repo")
    ap.add_argument("--refactored", action="store_true",
                    help="also run the REFACTORED list (for a snapshot with a refactoring applied); implies --skip-missing")
    a = ap.parse_args()
    if a.refactored:
        a.skip_missing = True
    gen_dir = os.path.join(a.lean, "PyEcc", "Gen")
    env = dict(os.environ)
    env["PATH"] = "/opt/veriftools/lean/bin:" + env["PATH"]
    targets = a.targets.split(",") if a.targets else [t for t in TARGETS if os.path.exists(
        os.path.join(a.lean, *t.split(".")) + ".lean")]
    results = []
    muts = [m for m in MUTATIONS + (REFACTORED if a.refactored else []) if a.only is None or re.search(a.only, m[0])]
    skipped = []
    # the generated files of the (possibly refactored) tree under test are the baseline
    rc0, info0 = regenerate(a.repo, gen_dir)
    if rc0 != 0:
        raise SystemExit(f"the tree under test does not regenerate: {info0}")
    for mid, rel, fn, old, new, occ in muts:
        repo_mut = os.path.join(a.work, "repo_mut")
        shutil.rmtree(repo_mut, ignore_errors=True)
        shutil.copytree(a.repo, repo_mut, ignore=shutil.ignore_patterns(".git", "__pycache__", ".tox", "*.pyc"))
        try:
            mutate(repo_mut, rel, fn, old, new, occ)
        except SystemExit as ex:
            if not a.skip_missing:
                raise
            skipped.append(mid)
            print(f"{mid:26s} skipped: {ex}", flush=True)
            continue
        gen_out = os.path.join(a.work, "Gen")
        shutil.rmtree(gen_out, ignore_errors=True)
        shutil.copytree(gen_dir, gen_out)
        rc, info = regenerate(repo_mut, gen_out)
        changed_extra = [c for c in info["changed"] if c.startswith("ExtraFields")]
        other_changed = [c for c in info["changed"] if not c.startswith("ExtraFields")]
        verdict, detail = None, ""
        if any(e[0].startswith("ExtraFields") for e in info["errors"]):
            verdict = "caught: translator refused"
            detail = "; ".join(f"{e[0]}: {e[1][:160]}" for e in info["errors"] if e[0].startswith("ExtraFields"))
        elif not changed_extra:
            verdict = "NOT CAUGHT: generated files unchanged"
        else:
            saved = {}
            for c in changed_extra:
                dst = os.path.join(gen_dir, c + ".lean")
                saved[dst] = open(dst).read() if os.path.exists(dst) else None
                shutil.copy(os.path.join(gen_out, c + ".lean"), dst)
            t0 = time.time()
            r = run(["lake", "build"] + targets, cwd=a.lean, env=env)
            dt = time.time() - t0
            for dst, txt in saved.items():
                if txt is None:
                    os.remove(dst)
                else:
                    open(dst, "w").write(txt)
            if r.returncode != 0:
                errs = [ln for ln in (r.stdout + r.stderr).splitlines() if "error" in ln]
                verdict = f"caught: build failed ({dt:.0f}s)"
                detail = " | ".join(errs[:3])[:300]
            else:
                verdict = f"NOT CAUGHT: build succeeded ({dt:.0f}s)"
        results.append((mid, fn, old, new, verdict, detail))
        print(f"{mid:26s} {fn:22s} {old!r} -> {new!r}: {verdict}\n    {detail}", flush=True)
    r = run(["lake", "build"] + targets, cwd=a.lean, env=env)
    print("pristine rebuild:", "ok" if r.returncode == 0 else "FAILED\n" + r.stdout[-2000:])
    bad = [x for x in results if x[4].startswith("NOT")]
    print(json.dumps({"mutations": len(results), "caught": len(results) - len(bad), "not_caught": [x[0] for x in bad],
                      "skipped": len(skipped)}))
    return 1 if bad or r.returncode != 0 else 0


if __name__ == "__main__":
    sys.exit(main())
