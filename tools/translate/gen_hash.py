"""
gen_hash — the `Gen/ExtraHash*.lean` outputs: the byte/hash layer (`py_ecc/bls/hash.py`, the field half of
`py_ecc/bls/hash_to_curve.py`, `bytes_to_int` / `deterministic_generate_k` of secp256k1) and the list-manipulating
helpers (`twist` x4, `cast_point_to_fq12` x4, `exp_by_p`, `iso_map_G1/G2`) that `gen_extra` left as external symbols.
Each generated function is proved equal to the hand-written model in `lean/PyEcc/Props/TieHash*.lean`.

As in `gen_extra`, everything here that is not derived from the Python source is a symbol table (which Lean name a
Python name denotes), pinned by `check_origin`; the conventions for the Python built-ins are listed in the header
of `py2lean_hash.py` and repeated at the top of every generated file.
"""
import ast

from py2lean import BOOL, F, INT, NAT, OPT, T, TranslateError  # noqa: F401
from py2lean_extra import BYTES, HASHFN, LIST, Ext, check_origin
from py2lean_hash import BYTE, SAFE_ORD_BODY, HashTranslator, check_fn_body
from gen_extra import HEADER, find_fn, load

CONVENTIONS = """/-
  Conventions of the translator (tools/translate/py2lean_hash.py) for Python built-ins:
    bytes / bytearray            `Bytes = List UInt8`; `+` is `++`; `b"\\x00" * n` is `List.replicate n 0`; `len` is `List.length`;
                                 `x[a:b]` (a, b naturals) is `(x.drop a).take (b - a)`; `x[:b]` is `x.take b`;
                                 `bytes([v])` raises ValueError unless `v < 256`; `b"".join(L)` is `L.flatten`
    x.to_bytes(n, "big")         `i2osp x n` (OverflowError when `x ≥ 256 ^ n`);   int.from_bytes(x, "big")   `os2ip x`
    hashlib hash objects         a `HashFn` (`digestSize`, `blockSize`, `run`); `hashlib.sha256` is the explicit parameter `H`;
                                 `hmac.new(key, msg, h).digest()` is the model's RFC 2104 `hmac h key msg`
    math.ceil(a / b)             `ceilDiv a b`, the EXACT integer ceiling of a / b for naturals a, b with b > 0 (the Python
                                 expression rounds through a float, exact only below 2^53, and raises ZeroDivisionError for
                                 b = 0; neither is represented: hashlib digest sizes are positive and lengths are small)
    L.append(e), L.extend(M)     re-binding `L := L ++ [e]`, `L := L ++ M` (the translator checks that `L` is a local list that
                                 never escapes by reference)
    [e for x in it], tuple(e for x in it)   `it.map fun x => e`; `List.mapM` (stops at the first exception) when `e` can raise
    for loops                    translated in place as `List.foldl` / `List.foldlM` over `fun state x => ..`; several loop-carried
                                 variables form a tuple in the order of their first assignment in the loop body
    L[i] (i a natural)           raises IndexError when `i ≥ len(L)`; `PyErr` has no IndexError constructor, `PyErr.other` is
                                 used (every tie theorem proves the generated function equal to a model in which that branch
                                 does not exist, i.e. that it is dead)
    int parameters               natural numbers (`Nat`) in hash.py / hash_to_curve.py (lengths and counts); Python ints
                                 (`Int`) in secp256k1.py
-/
"""


# ----------------------------------------------------------------------------- py_ecc/bls/hash.py, hash_to_curve.py

def gen_extra_hash(repo, consts):
    F1, F2 = "F1", "F2"
    out = [HEADER, "import PyEcc.Model.Swu\nset_option linter.unusedVariables false\n", CONVENTIONS,
           "namespace PyEcc.Gen.ExtraHash\nopen PyEcc PyEcc.Gen.Consts\n\n"]

    rel = "py_ecc/bls/hash.py"
    tree, lines = load(repo, rel)
    check_origin(tree, {"hashlib": "import", "hmac": "import", "math": "import", "HASH": "from:_hashlib",
                        "Union": "from:typing", "i2osp": "def", "os2ip": "def", "xor": "def"}, rel)
    tymap = {"Union[bytes, bytearray]": BYTES, "HASH": HASHFN}
    ext = {
        # callees are mapped to the MODEL functions (each has its own tie theorem below)
        "i2osp": Ext("PyEcc.i2osp", [("x", NAT), ("xlen", NAT)], BYTES, raises=True),
        "xor": Ext("xorBytes", [("a", BYTES), ("b", BYTES)], BYTES),
    }
    H = [("H", HASHFN)]
    note = "/- `hashlib.sha256` is replaced by the explicit parameter `H` -/\n"
    for name, kw in (("hkdf_extract", dict(extra_params=H)),
                     ("hkdf_expand", dict(extra_params=H, raises=True)),
                     ("i2osp", dict(raises=True)),
                     ("os2ip", {}),
                     ("sha256", dict(extra_params=H)),
                     ("xor", {}),
                     ("expand_message_xmd", dict(raises=True))):
        # (loops are NOT outlined: see the remark at hash_to_field_FQ2 below)
        tr = HashTranslator("field", hashparam="H" if "extra_params" in kw else None, externs=dict(ext), tymap=tymap)
        if "extra_params" in kw:
            out.append(note)
        out.append(tr.function(find_fn(tree, name), lines, rel, **kw) + "\n")

    rel = "py_ecc/bls/hash_to_curve.py"
    tree, lines = load(repo, rel)
    check_origin(tree, {"HASH": "from:_hashlib", "Tuple": "from:typing",
                        "FQ": "from:py_ecc.fields:optimized_bls12_381_FQ", "FQ2": "from:py_ecc.fields:optimized_bls12_381_FQ2",
                        "field_modulus": "from:py_ecc.optimized_bls12_381", "HASH_TO_FIELD_L": "from:.constants",
                        "expand_message_xmd": "from:.hash", "os2ip": "from:.hash"}, rel)
    ctree, _ = load(repo, "py_ecc/bls/constants.py")
    L = int(consts["blsconst"]["HASH_TO_FIELD_L"])
    check_origin(ctree, {"HASH_TO_FIELD_L": f"assign:{L}"}, "py_ecc/bls/constants.py")
    cs = {"HASH_TO_FIELD_L": ("blsconst_HASH_TO_FIELD_L", NAT), "field_modulus": ("blsP", NAT)}
    vals = {"HASH_TO_FIELD_L": L, "field_modulus": int(consts["optimized_bls12_381"]["field_modulus"])}
    hext = {
        "expand_message_xmd": Ext(None, [("msg", BYTES), ("DST", BYTES), ("len_in_bytes", NAT), ("hash_function", HASHFN)],
                                  BYTES, raises=True, template="expandMessageXmd {hash_function} {msg} {DST} {len_in_bytes}"),
        "os2ip": Ext("PyEcc.os2ip", [("x", BYTES)], NAT),
        # FQ(n): the optimized FQ constructor reduces its int argument
        "FQ": Ext(None, [("x", NAT)], F1, template="(Fq.ofInt (({x} : Nat) : Int) : F1)"),
        # FQ2(coeffs) on a list of ints: FQP.__init__ raises Exception unless there are exactly two coefficients, then
        # reduces each of them
        "FQ2": Ext(None, [("coeffs", LIST(NAT))], F2, raises=True, template=(
            "(if List.length {coeffs} = 2 then pure (Fqp.ofInts (List.map Int.ofNat {coeffs}) : F2) else throw PyErr.other)")),
    }
    for name in ("hash_to_field_FQ2", "hash_to_field_FQ"):
        tr = HashTranslator("field", const=cs, const_values=vals, externs=dict(hext), copying={"FQ2"},
                            tymap={"HASH": HASHFN, "FQ": F1, "FQ2": F2})
        # (loops are NOT outlined here: the tie theorems only mention the top-level functions, so that adding, removing
        #  or reshaping a loop does not change any name or signature they refer to)
        out.append(tr.function(find_fn(tree, name), lines, rel, raises=True) + "\n")
    out.append("end PyEcc.Gen.ExtraHash\n")
    return "".join(out)


# ----------------------------------------------------------------------------- py_ecc/secp256k1/secp256k1.py

def gen_extra_hash_secp(repo, consts):
    rel = "py_ecc/secp256k1/secp256k1.py"
    tree, lines = load(repo, rel)
    check_origin(tree, {"hashlib": "import", "hmac": "import", "safe_ord": "def", "bytes_to_int": "def"}, rel)
    check_fn_body(tree, "safe_ord", ["value"], SAFE_ORD_BODY, rel)
    out = [HEADER, "import PyEcc.Model.Ecdsa\nset_option linter.unusedVariables false\n", CONVENTIONS,
           "namespace PyEcc.Gen.ExtraHashSecp\nopen PyEcc\n\n"]
    ext = {
        # `safe_ord(b)` of an element of a byte string (an int): the int itself (the body of safe_ord is checked)
        "safe_ord": Ext(None, [("value", BYTE)], NAT, template="UInt8.toNat {value}"),
    }
    tr = HashTranslator("int", externs=dict(ext))
    out.append(tr.function(find_fn(tree, "bytes_to_int"), lines, rel) + "\n")     # (the loop is not outlined)
    ext2 = {"bytes_to_int": Ext("Ecdsa.bytesToInt", [("x", BYTES)], INT)}
    tr = HashTranslator("int", hashparam="H", externs=dict(ext2))
    out.append("/- `hashlib.sha256` is replaced by the explicit parameter `H` -/\n")
    out.append(tr.function(find_fn(tree, "deterministic_generate_k"), lines, rel, extra_params=[("H", HASHFN)]) + "\n")
    out.append("end PyEcc.Gen.ExtraHashSecp\n")
    return "".join(out)


# ----------------------------------------------------------------------------- twist, cast_point_to_fq12, exp_by_p

def gen_extra_hash_curve(repo, consts):
    from gen_extra import PAIRING_MODULES
    out = [HEADER, "import PyEcc.Model.Pairing\nset_option linter.unusedVariables false\n", """/-
  Conventions of the translator (tools/translate/py2lean_hash.py) used here:
    x.coeffs[k] (constant k)     `getI x.coeffs k`: an FQP has exactly `degree` coefficients (class invariant); in the reference
                                 classes the coefficient is an `FQ` object, rendered `Fq.ofInt (getI x.coeffs k)`
    FQ12([...])                  `Fqp.ofInts [...]` after checking statically that the list expression has 12 entries
                                 (FQP.__init__ raises otherwise); an `FQ` entry contributes its `.n`; `int(fq)` is `fq.n`
    xs = [a, b]; xs[0]           a list display that is only ever indexed by constants is read as a tuple
    if pt is None: return None   dropped for a parameter annotated as a (non-Optional) `Optimized_Point3D`; a case split on the
                                 option for a parameter annotated `Point2D` (= Optional)
    sum((e for a, b in zip(A, B)), s)   left fold `s + e_1 + e_2 + ...`
-/
"""]
    for ns in ("OptBls", "OptBn", "RefBls", "RefBn"):
        m = PAIRING_MODULES[ns]
        key, fq, fq2, fq12, p = m["key"], m["fq"], m["fq2"], m["fq12"], m["p"]
        out.append(f"\nnamespace PyEcc.Gen.ExtraHashCurve.{ns}\nopen PyEcc PyEcc.Gen.Consts\n\n")
        ctors = {"FQ12": (fq12, 12, "(Fqp.ofInts {0} : " + fq12 + ")")}
        common = dict(
            tymap={"FQ": fq, "FQ2": fq2, "FQ12": fq12, "FQP": fq2}, classes={"FQ": fq, "FQ2": fq2, "FQ12": fq12},
            ctors=ctors, nattr={fq: "{0}.n"}, never_none={"pt"},
            mulint={fq: "(Fq.mulInt {0} {1})"} if not m["opt"] else {})
        if m["opt"]:
            common["coeffs"] = {fq2: (2, "{0}.coeffs", "getI {0}.coeffs {1}"), fq12: (12, "{0}.coeffs", "getI {0}.coeffs {1}")}
        else:
            common["coeffs"] = {fq2: (2, "{0}.coeffs", "(Fq.ofInt (getI {0}.coeffs {1}) : " + fq + ")")}
            common["coeff_elem"] = {fq2: fq}
            common["elem_to_int"] = {fq: "(({0}.n : Nat) : Int)"}
        # --- twist (curve module)
        rel = m["curve"]
        tree, lines = load(repo, rel)
        check_origin(tree, {"FQ12": f"from:py_ecc.fields:{key}_FQ12", "FQP": f"from:py_ecc.fields:{key}_FQP",
                            "w": "assign:FQ12([0, 1] + [0] * 10)", "twist": "def"}, rel)
        tr = HashTranslator("field", const={"w": (f"(wElem : {fq12})", fq12)}, **common)
        out.append(tr.function(find_fn(tree, "twist"), lines, rel) + "\n")
        # --- cast_point_to_fq12 (pairing module)
        rel = m["pairing"]
        tree, lines = load(repo, rel)
        check_origin(tree, {"FQ12": f"from:py_ecc.fields:{key}_FQ12", "FQ": f"from:py_ecc.fields:{key}_FQ",
                            "cast_point_to_fq12": "def"}, rel)
        tr = HashTranslator("field", **common)
        out.append(tr.function(find_fn(tree, "cast_point_to_fq12"), lines, rel) + "\n")
        if ns == "OptBls":
            check_origin(tree, {"exptable": "assign:[FQ12([0] * i + [1] + [0] * (11 - i)) ** field_modulus for i in range(12)]",
                                "exp_by_p": "def"}, rel)
            tr = HashTranslator("field", const={"exptable": ("blsExptable", LIST(fq12))},
                                mulint={fq12: "(Fqp.mulInt {0} {1})"}, **{k: v for k, v in common.items() if k != "mulint"})
            out.append(tr.function(find_fn(tree, "exp_by_p"), lines, rel) + "\n")
        out.append(f"end PyEcc.Gen.ExtraHashCurve.{ns}\n")
    return "".join(out)


# ----------------------------------------------------------------------------- iso_map_G1, iso_map_G2

def gen_extra_hash_iso(repo, consts):
    F1, F2 = "F1", "F2"
    rel = "py_ecc/optimized_bls12_381/optimized_swu.py"
    tree, lines = load(repo, rel)
    check_origin(tree, {"ISO_11_MAP_COEFFICIENTS": "from:.constants", "ISO_3_MAP_COEFFICIENTS": "from:.constants",
                        "FQ": "from:py_ecc.fields:optimized_bls12_381_FQ", "FQ2": "from:py_ecc.fields:optimized_bls12_381_FQ2"}, rel)
    out = [HEADER, "import PyEcc.Model.Swu\nset_option linter.unusedVariables false\n", """/-
  Conventions of the translator (tools/translate/py2lean_hash.py) used here:
    L[i], L[i] = v               raise IndexError when `i ≥ len(L)`; `PyErr` has no IndexError constructor, `PyErr.other` is used
                                 (the tie theorems prove that these branches are dead); in `L[i] = v` the value is evaluated first
    L[-1:][0]                    the last element of `L` (IndexError for the empty list)
    for i, x in enumerate(L)     fold over `List.zip (List.range L.length) L`; `reversed(L)` is `L.reverse`, `L[:-1]` is `L.dropLast`
    ISO_*_MAP_COEFFICIENTS       the module's tables (Gen.Consts.h2c_*), wrapped in FQ / FQ2 exactly as the model does
-/
""", "namespace PyEcc.Gen.ExtraHashIso\nopen PyEcc PyEcc.Gen.Consts\n\n"]
    cs = {
        "ISO_11_MAP_COEFFICIENTS": ("(h2c_ISO_11_MAP_COEFFICIENTS.map fun ks => ks.map fun c => f1c (getI c 0))", LIST(LIST(F1))),
        "ISO_3_MAP_COEFFICIENTS": ("(h2c_ISO_3_MAP_COEFFICIENTS.map fun ks => ks.map f2c)", LIST(LIST(F2))),
    }
    for name in ("iso_map_G1", "iso_map_G2"):
        tr = HashTranslator("field", const=cs, tymap={"FQ": F1, "FQ2": F2}, classes={"FQ": F1, "FQ2": F2})
        # (loops are not outlined: the tie theorems only mention `iso_map_G1` / `iso_map_G2` themselves)
        out.append(tr.function(find_fn(tree, name), lines, rel, raises=True) + "\n")
    out.append("end PyEcc.Gen.ExtraHashIso\n")
    return "".join(out)


# ----------------------------------------------------------------------------- modular_squareroot_in_FQ2

def gen_extra_hash_codec(repo, consts):
    F2 = "F2"
    rel = "py_ecc/bls/point_compression.py"
    tree, lines = load(repo, rel)
    check_origin(tree, {"EIGHTH_ROOTS_OF_UNITY": "from:.constants", "FQ2_ORDER": "from:.constants",
                        "FQ2": "from:py_ecc.fields:optimized_bls12_381_FQ2", "modular_squareroot_in_FQ2": "def"}, rel)
    out = [HEADER, "import PyEcc.Model.Codec\nset_option linter.unusedVariables false\n", """/-
  Conventions of the translator (tools/translate/py2lean_hash.py) used here:
    x in L                       `L.contains x` (Python compares with `==`, coefficientwise equality of FQ2 values)
    L[::2]                       `everyOther L` (the entries at even positions)
    L.index(x)                   the first position holding a value `== x` (`List.findIdx`); raises ValueError when there is none
    L[i]                         raises IndexError when `i ≥ len(L)` (`PyErr.other`: `PyErr` has no IndexError constructor)
  The tie theorem proves that neither exception can be raised.
-/
""", "namespace PyEcc.Gen.ExtraHashCodec\nopen PyEcc PyEcc.Gen.Consts\n\n"]
    cs = {"EIGHTH_ROOTS_OF_UNITY": ("EIGHTH_ROOTS_OF_UNITY", LIST(F2)), "FQ2_ORDER": ("blsconst_FQ2_ORDER", NAT)}
    vals = {"FQ2_ORDER": int(consts["blsconst"]["FQ2_ORDER"])}
    tr = HashTranslator("field", const=cs, const_values=vals, tymap={"FQ2": F2}, classes={"FQ2": F2},
                        coeffs={F2: (2, "{0}.coeffs", "getI {0}.coeffs {1}")})
    out.append(tr.function(find_fn(tree, "modular_squareroot_in_FQ2"), lines, rel, raises=True) + "\n")
    out.append("end PyEcc.Gen.ExtraHashCodec\n")
    return "".join(out)


# ----------------------------------------------------------------------------- registry

def jobs(repo, get_consts):
    def need_consts(f):
        def run():
            c = get_consts()
            if c is None:
                raise TranslateError("module constants unavailable (package does not import)")
            return f(repo, c)
        return run
    return [
        ("ExtraHash", need_consts(gen_extra_hash)),
        ("ExtraHashSecp", need_consts(gen_extra_hash_secp)),
        ("ExtraHashCurve", need_consts(gen_extra_hash_curve)),
        ("ExtraHashIso", need_consts(gen_extra_hash_iso)),
        ("ExtraHashCodec", need_consts(gen_extra_hash_codec)),
    ]
