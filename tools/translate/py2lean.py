"""
py2lean — a deliberately small Python-AST -> Lean 4 printer for the straight-line / branching
arithmetic functions of py_ecc (see DESIGN.md §3.3).

It understands exactly the constructs those functions use and FAILS LOUDLY (TranslateError) on
anything else, so that a refactor which leaves the subset is reported as a broken tie instead of
being silently mistranslated.

Two modes:
  * mode "field": values are elements of an abstract field-like type F (`[Add F] [Mul F] ...`),
    points are tuples of F (projective) or `Option (F × F)` (affine, None = infinity), scalars
    are `Nat`.
  * mode "int": values are Python ints (`Int`), `%`, `//` are Lean's `%`, `/` on `Int` (they agree
    with Python whenever the divisor is positive; the translator checks that every divisor is a
    whitelisted positive quantity).
"""
import ast
import hashlib
import textwrap


class TranslateError(Exception):
    pass


# ----------------------------------------------------------------------------- types

F = "F"
NAT = "Nat"
INT = "Int"
BOOL = "Bool"
LIT = "lit"  # an int literal whose type is fixed by context


def T(*ts):
    return ("tuple", tuple(ts))


def OPT(t):
    return ("option", t)


def lean_type(t):
    if t in (F, NAT, INT, BOOL):
        return t
    if t[0] == "tuple":
        return " × ".join(lean_type(x) if not isinstance(x, tuple) or x[0] != "tuple" else "(" + lean_type(x) + ")" for x in t[1])
    if t[0] == "option":
        return "Option (" + lean_type(t[1]) + ")"
    raise TranslateError(f"no Lean type for {t}")


def ann_to_type(ann, mode):
    s = ast.unparse(ann) if not isinstance(ann, str) else ann
    s = s.strip("'\"")
    base = F if mode == "field" else INT
    if s.startswith("Optimized_Point3D"):
        return T(F, F, F)
    if s.startswith("Optimized_Point2D"):
        return T(F, F)
    if s.startswith("Point2D") or s.startswith("GeneralPoint"):
        return OPT(T(F, F))
    if s in ("Optimized_Field", "Field", "FQ", "FQ2", "FQ12", "FQP"):
        return F
    if s == "int":
        return NAT if mode == "field" else INT
    if s == "bool":
        return BOOL
    if s == "PlainPoint3D":
        return T(INT, INT, INT)
    if s == "PlainPoint2D":
        return T(INT, INT)
    if s == "Tuple[int, int, int]":
        return T(INT, INT, INT)
    if s == "bytes":
        return ("bytes",)
    raise TranslateError(f"unsupported annotation {s!r}")


def proj(expr, arity, idx):
    """Lean projection of component idx (0-based, negatives allowed) of an `arity`-tuple."""
    if idx < 0:
        idx += arity
    if not (0 <= idx < arity):
        raise TranslateError("tuple index out of range")
    path = ".2" * idx + (".1" if idx < arity - 1 else "")
    return f"{expr}{path}"


class Fn:
    def __init__(self, name, params, ret, raises, fuel=None, lean_name=None):
        self.name = name
        self.params = params  # list of (name, type)
        self.ret = ret
        self.raises = raises
        self.fuel = fuel
        self.lean_name = lean_name or name


LEAN_KEYWORDS = {"from", "end", "at", "in", "do", "then", "else", "if", "let", "have", "show", "fun", "def", "open", "new", "by", "with", "match",
                 # further Lean 4 keywords / command names a Python local may happen to be called
                 "partial", "theorem", "lemma", "example", "instance", "structure", "class", "inductive", "where", "namespace", "section",
                 "variable", "universe", "mutual", "private", "protected", "unsafe", "noncomputable", "macro", "syntax", "notation",
                 "deriving", "extends", "import", "export", "abbrev", "opaque", "axiom", "calc", "this", "Type", "Prop", "Sort", "forall",
                 "exists", "return", "for", "unless", "mut", "try", "catch", "finally", "throw", "using", "suffices", "obtain", "set_option",
                 "attribute", "local", "scoped", "infix", "infixl", "infixr", "prefix", "postfix", "termination_by", "decreasing_by", "nomatch",
                 "nofun", "sorry", "true", "false"}


def lname(n):
    if n in LEAN_KEYWORDS or n.startswith("_"):
        return "v_" + n.lstrip("_")
    return n


class Translator:
    def __init__(self, mode, consts=None, positive=None, known=None, ns=""):
        self.mode = mode
        self.consts = consts or {}       # module-level names -> type
        self.positive = positive or set()  # expressions (unparsed) allowed as divisors
        self.fns = dict(known or {})     # name -> Fn
        self.ns = ns
        self.cur = {}
        self.hoisting = False

    # ------------------------------------------------------------------ expressions
    def cast_lit(self, k, ty):
        if ty == F:
            if k == 0:
                return "(0 : F)"
            if k == 1:
                return "(1 : F)"
            if k < 0:
                return f"(-(({-k} : Nat) : F))"
            return f"(({k} : Nat) : F)"
        if ty == INT:
            return f"({k} : Int)"
        if ty == NAT:
            if k < 0:
                raise TranslateError("negative literal in Nat context")
            return f"({k} : Nat)"
        raise TranslateError(f"cannot use literal {k} at type {ty}")

    def unify(self, a, ta, b, tb, ctx):
        """Make both operands the same arithmetic type; returns (a, b, t)."""
        if ta == LIT and tb == LIT:
            d = F if False else (INT if self.mode == "int" else NAT)
            return self.cast_lit(a, d), self.cast_lit(b, d), d
        if ta == LIT:
            return self.cast_lit(a, tb), b, tb
        if tb == LIT:
            return a, self.cast_lit(b, ta), ta
        if ta == tb:
            return a, b, ta
        if {ta, tb} == {F, NAT} or {ta, tb} == {F, INT}:
            # int * field element: the int acts as its residue
            if ta != F:
                return f"(({a} : {ta}) : F)", b, F
            return a, f"(({b} : {tb}) : F)", F
        raise TranslateError(f"type mismatch {ta} vs {tb} in {ctx}")

    def expr(self, e, env):
        """returns (lean_string_or_int_for_literals, type)"""
        if isinstance(e, ast.Constant):
            if isinstance(e.value, bool):
                return ("true" if e.value else "false"), BOOL
            if isinstance(e.value, int):
                return e.value, LIT
            if e.value is None:
                return "none", ("none",)
            raise TranslateError(f"constant {e.value!r}")
        if isinstance(e, ast.Name):
            if e.id in env:
                return lname(e.id), env[e.id]
            if e.id in self.consts:
                return e.id, self.consts[e.id]
            raise TranslateError(f"unknown name {e.id}")
        if isinstance(e, ast.Tuple):
            parts = [self.expr(x, env) for x in e.elts]
            # literals inside tuples: need a concrete type; take from siblings or mode
            d = INT if self.mode == "int" else F
            strs, tys = [], []
            for s, t in parts:
                if t == LIT:
                    s, t = self.cast_lit(s, d), d
                strs.append(s)
                tys.append(t)
            return "(" + ", ".join(strs) + ")", T(*tys)
        if isinstance(e, ast.UnaryOp):
            if isinstance(e.op, ast.USub):
                s, t = self.expr(e.operand, env)
                if t == LIT:
                    return -s, LIT
                return f"(-{s})", t
            if isinstance(e.op, ast.Not):
                return f"(¬ {self.cond(e.operand, env)})", "prop"
            raise TranslateError("unary op")
        if isinstance(e, ast.BinOp):
            return self.binop(e, env)
        if isinstance(e, ast.Subscript):
            base, tb = self.expr(e.value, env)
            if tb[0] != "tuple":
                raise TranslateError(f"subscript of non-tuple {ast.unparse(e)} : {tb}")
            idx = e.slice
            if isinstance(idx, ast.UnaryOp) and isinstance(idx.op, ast.USub) and isinstance(idx.operand, ast.Constant):
                i = -idx.operand.value
            elif isinstance(idx, ast.Constant) and isinstance(idx.value, int):
                i = idx.value
            else:
                raise TranslateError("non-constant subscript")
            ar = len(tb[1])
            return proj(base, ar, i), tb[1][i if i >= 0 else i + ar]
        if isinstance(e, ast.IfExp):
            c = self.cond(e.test, env)
            a, ta = self.expr(e.body, env)
            b, tb = self.expr(e.orelse, env)
            if ta == ("none",) and tb == ("none",):
                raise TranslateError("ifexp none/none")
            if ta == ("none",):
                ta = tb
            if tb == ("none",):
                tb = ta
            if ta == LIT or tb == LIT:
                a, b, ta = self.unify(a, ta, b, tb, "ifexp")
                tb = ta
            if ta != tb:
                raise TranslateError(f"ifexp branch types {ta} {tb}")
            return f"(if {c} then {a} else {b})", ta
        if isinstance(e, ast.Compare) or isinstance(e, ast.BoolOp):
            return self.cond(e, env), "prop"
        if isinstance(e, ast.Call):
            return self.call(e, env)
        raise TranslateError(f"unsupported expression {ast.dump(e)[:80]}")

    def binop(self, e, env):
        a, ta = self.expr(e.left, env)
        b, tb = self.expr(e.right, env)
        op = e.op
        if isinstance(op, ast.Pow):
            if tb != LIT or b < 0:
                raise TranslateError("only constant non-negative exponents")
            if ta == LIT:
                return a ** b, LIT
            return f"({a} ^ ({b} : Nat))", ta
        if isinstance(op, ast.BitXor):
            if self.mode != "int":
                raise TranslateError("xor outside int mode")
            a, b, t = self.unify(a, ta, b, tb, "xor")
            return f"(pyXor {a} {b})", INT
        if ta == LIT and tb == LIT:
            if isinstance(op, ast.Add):
                return a + b, LIT
            if isinstance(op, ast.Sub):
                return a - b, LIT
            if isinstance(op, ast.Mult):
                return a * b, LIT
            if isinstance(op, ast.FloorDiv):
                return a // b, LIT
            if isinstance(op, ast.Mod):
                return a % b, LIT
        if isinstance(op, (ast.Add, ast.Sub, ast.Mult)):
            a, b, t = self.unify(a, ta, b, tb, ast.unparse(e))
            sym = {ast.Add: "+", ast.Sub: "-", ast.Mult: "*"}[type(op)]
            return f"({a} {sym} {b})", t
        if isinstance(op, ast.Div):
            a, b, t = self.unify(a, ta, b, tb, ast.unparse(e))
            if t != F:
                raise TranslateError("true division on non-field values")
            return f"({a} / {b})", F
        if isinstance(op, (ast.Mod, ast.FloorDiv)):
            a, b, t = self.unify(a, ta, b, tb, ast.unparse(e))
            if t not in (INT, NAT):
                raise TranslateError("% or // on field values")
            div = ast.unparse(e.right)
            if div not in self.positive:
                raise TranslateError(f"divisor {div!r} is not in the positive whitelist")
            sym = "%" if isinstance(op, ast.Mod) else "/"
            return f"({a} {sym} {b})", t
        raise TranslateError(f"binop {type(op).__name__}")

    def truthy(self, s, t):
        """Python truthiness of a value"""
        if t == "prop":
            return s
        if t == BOOL:
            return f"({s} = true)"
        if t in (INT, NAT):
            return f"({s} ≠ 0)"
        if t == LIT:
            return "True" if s != 0 else "False"
        raise TranslateError(f"truthiness of {t}")

    def cond(self, e, env):
        """translate a condition to a decidable Prop"""
        if isinstance(e, ast.BoolOp):
            parts = [self.cond(v, env) for v in e.values]
            sym = " ∧ " if isinstance(e.op, ast.And) else " ∨ "
            return "(" + sym.join(parts) + ")"
        if isinstance(e, ast.UnaryOp) and isinstance(e.op, ast.Not):
            if not isinstance(e.operand, (ast.Compare, ast.BoolOp, ast.UnaryOp)):
                s0, t0 = self.expr(e.operand, env)
                if t0 in (INT, NAT):
                    return f"({s0} = 0)"
            return f"(¬ {self.cond(e.operand, env)})"
        if isinstance(e, ast.Compare):
            if len(e.ops) != 1:
                raise TranslateError("chained comparison")
            op = e.ops[0]
            l, r = e.left, e.comparators[0]
            if isinstance(op, (ast.Is, ast.IsNot)):
                if not (isinstance(r, ast.Constant) and r.value is None):
                    raise TranslateError("`is` only against None")
                s, t = self.expr(l, env)
                if t[0] != "option":
                    raise TranslateError("`is None` on a non-optional value")
                return f"({s} = none)" if isinstance(op, ast.Is) else f"({s} ≠ none)"
            if isinstance(op, (ast.In, ast.NotIn)):
                if not isinstance(r, ast.Tuple):
                    raise TranslateError("`in` only against tuple display")
                s, t = self.expr(l, env)
                alts = []
                for x in r.elts:
                    xs, xt = self.expr(x, env)
                    s2, xs2, _ = self.unify(s, t, xs, xt, "in")
                    alts.append(f"{s2} = {xs2}")
                body = "(" + " ∨ ".join(alts) + ")"
                return body if isinstance(op, ast.In) else f"(¬ {body})"
            a, ta = self.expr(l, env)
            b, tb = self.expr(r, env)
            if ta == "prop" or tb == "prop":
                raise TranslateError("comparison of conditions")
            a, b, t = self.unify(a, ta, b, tb, ast.unparse(e))
            sym = {ast.Eq: "=", ast.NotEq: "≠", ast.Lt: "<", ast.LtE: "≤", ast.Gt: ">", ast.GtE: "≥"}.get(type(op))
            if sym is None:
                raise TranslateError("comparison op")
            if sym in ("<", "≤", ">", "≥") and t == F:
                raise TranslateError("ordering on field values")
            return f"({a} {sym} {b})"
        s, t = self.expr(e, env)
        return self.truthy(s, t)

    def call(self, e, env):
        f = e.func
        # x.one() / x.zero() / X.__class__.zero() / FQ12.one()
        if isinstance(f, ast.Attribute) and f.attr in ("one", "zero") and not e.args:
            if self.mode != "field":
                raise TranslateError(".one()/.zero() outside field mode")
            return ("(1 : F)" if f.attr == "one" else "(0 : F)"), F
        if isinstance(f, ast.Name):
            if f.id == "cast" and len(e.args) == 2:
                return self.expr(e.args[1], env)
            if f.id == "int" and len(e.args) == 1:
                s, t = self.expr(e.args[0], env)
                if t not in (INT, NAT, LIT):
                    raise TranslateError("int() of non-int")
                return s, t
            if f.id == "pow" and len(e.args) == 3 and self.mode == "int":
                args = [self.expr(a, env) for a in e.args]
                strs = [self.cast_lit(s, INT) if t == LIT else s for s, t in args]
                if ast.unparse(e.args[2]) not in self.positive:
                    raise TranslateError("pow modulus not whitelisted positive")
                return f"(powModI {strs[0]} {strs[1]} {strs[2]})", INT
            if f.id in self.fns:
                fn = self.fns[f.id]
                if len(e.args) != len(fn.params) or e.keywords:
                    raise TranslateError(f"call arity {f.id}")
                strs = []
                for a, (pn, pt) in zip(e.args, fn.params):
                    s, t = self.expr(a, env)
                    if t == LIT:
                        s, t = self.cast_lit(s, pt), pt
                    if t == ("none",) and pt[0] == "option":
                        t = pt
                    if t != pt:
                        raise TranslateError(f"argument type {t} for {f.id}.{pn}:{pt}")
                    strs.append(s)
                if not fn.raises:
                    return "(" + self.callstr(fn, strs, self.cur) + ")", fn.ret
                if not self.hoisting:
                    raise TranslateError(f"call to raising function {fn.name} in an unsupported position")
                return ("CALL", fn, strs), fn.ret
        raise TranslateError(f"unsupported call {ast.unparse(e)[:60]}")

    # ------------------------------------------------------------------ statements
    def hoist(self, e, env, k, in_except, cur):
        """Translate expression e; calls to translated functions are bound to fresh names first
        (evaluation order preserved); k receives (lean_expr, type) and returns the continuation text."""
        pending = []

        counter = [0]

        def walk(node):
            # returns (str, type) with CALL markers replaced by fresh variables
            s, t = node
            return s, t

        # We translate with a custom recursive pass that replaces nested calls by variables.
        binds = []

        orig_call = self.call

        def call2(ce, cenv):
            r, t = orig_call(ce, cenv)
            if isinstance(r, tuple) and r[0] == "CALL":
                _, fn, strs = r
                counter[0] += 1
                v = f"r{cur['fresh']}_{counter[0]}"
                binds.append((v, fn, strs))
                return v, t
            return r, t

        self.call = call2
        self.hoisting = True
        try:
            s, t = self.expr(e, env)
        finally:
            self.call = orig_call
            self.hoisting = False
        cur["fresh"] += 1
        body = k(s, t)
        for v, fn, strs in reversed(binds):
            callstr = self.callstr(fn, strs, cur)
            if fn.raises:
                if not in_except:
                    raise TranslateError(f"call to raising function {fn.name} in non-raising function")
                body = f"match {callstr} with\n| .error e => .error e\n| .ok {v} =>\n{indent(body)}"
            else:
                body = f"let {v} := {callstr}\n{body}"
        return body

    def callstr(self, fn, strs, cur):
        args = " ".join(f"({s})" if " " in s and not s.startswith("(") else s for s in strs)
        if cur.get("self") == fn.name and fn.fuel is not None:
            return f"{fn.lean_name}Aux fuel {args}"
        return f"{fn.lean_name} {args}"

    def ret_wrap(self, s, t, fn):
        if t == LIT:
            s, t = self.cast_lit(s, fn.ret), fn.ret
        if t == "prop":
            s, t = f"decide {s}", BOOL
        if t == ("none",) and fn.ret[0] == "option":
            t = fn.ret
        if isinstance(fn.ret, tuple) and fn.ret[0] == "option" and t == fn.ret[1]:
            s, t = f"some {s}", fn.ret  # a tuple returned where Optional[tuple] is declared
        if t != fn.ret:
            raise TranslateError(f"return type {t} but {fn.name} declares {fn.ret}")
        return f".ok ({s})" if fn.raises else s

    def stmts(self, body, env, fn, cur):
        if not body:
            raise TranslateError(f"{fn.name}: control reaches end of function without return")
        st, rest = body[0], body[1:]
        if isinstance(st, ast.Expr) and isinstance(st.value, ast.Constant) and isinstance(st.value.value, str):
            return self.stmts(rest, env, fn, cur)  # docstring
        if isinstance(st, ast.Return):
            return self.hoist(st.value, env, lambda s, t: self.ret_wrap(s, t, fn), fn.raises, cur)
        if isinstance(st, ast.Raise):
            if not fn.raises:
                raise TranslateError("raise in a function declared non-raising")
            kind = "other"
            if isinstance(st.exc, ast.Call) and isinstance(st.exc.func, ast.Name):
                kind = {"ValueError": "value", "TypeError": "type", "AssertionError": "assertion",
                        "ValidationError": "validation"}.get(st.exc.func.id, "other")
            return f".error PyErr.{kind}"
        if isinstance(st, ast.If):
            c = self.cond(st.test, env)
            # knowledge about None-ness for the else branch
            env_else = dict(env)
            a = self.stmts(st.body + rest if not terminates(st.body) else st.body, dict(env), fn, cur)
            b = self.stmts((st.orelse + rest) if not terminates(st.orelse) else st.orelse, env_else, fn, cur) \
                if (st.orelse or rest) else None
            if b is None:
                raise TranslateError("if without continuation")
            return f"if {c} then\n{indent(a)}\nelse\n{indent(b)}"
        if isinstance(st, ast.Assign):
            if len(st.targets) != 1:
                raise TranslateError("multiple assignment targets")
            tgt = st.targets[0]
            if isinstance(tgt, ast.Name):
                def k(s, t, tgt=tgt):
                    if t == LIT:
                        d = INT if self.mode == "int" else NAT
                        s, t = self.cast_lit(s, d), d
                    if t == "prop":
                        s, t = f"decide {s}", BOOL
                    env2 = dict(env)
                    env2[tgt.id] = t
                    return f"let {lname(tgt.id)} := {s}\n" + self.stmts(rest, env2, fn, cur)
                return self.hoist(st.value, env, k, fn.raises, cur)
            if isinstance(tgt, ast.Tuple) and all(isinstance(x, ast.Name) for x in tgt.elts):
                names = [x.id for x in tgt.elts]
                # parallel assignment from a tuple display: evaluate all, then bind
                if isinstance(st.value, ast.Tuple) and len(st.value.elts) == len(names):
                    used = {n.id for n in ast.walk(st.value) if isinstance(n, ast.Name)}
                    if not (used & set(names)):
                        seq = [ast.Assign(targets=[ast.Name(id=n, ctx=ast.Store())], value=v)
                               for n, v in zip(names, st.value.elts)]
                        return self.stmts(seq + rest, env, fn, cur)

                    def k(s, t, names=names):
                        env2 = dict(env)
                        for n, ty in zip(names, t[1]):
                            env2[n] = ty
                        pat = ", ".join(lname(n) for n in names)
                        return f"match {s} with\n| ({pat}) =>\n" + indent(self.stmts(rest, env2, fn, cur))
                    return self.hoist(st.value, env, k, fn.raises, cur)

                def k(s, t, names=names):
                    if t[0] == "option":
                        inner = t[1]
                        if inner[0] != "tuple" or len(inner[1]) != len(names):
                            raise TranslateError("unpack arity")
                        env2 = dict(env)
                        for n, ty in zip(names, inner[1]):
                            env2[n] = ty
                        pat = ", ".join(lname(n) for n in names)
                        if fn.raises:
                            dead = ".error PyErr.type"
                        else:
                            # only allowed when a dominating guard makes this branch dead
                            if s not in cur.get("nonnull", set()):
                                raise TranslateError(f"{fn.name}: unpacking optional {s} without a dominating None guard")
                            dead = {"option": "none"}.get(fn.ret[0], None) if isinstance(fn.ret, tuple) else ("true" if fn.ret == BOOL else None)
                            if dead is None:
                                raise TranslateError("no dead-branch value")
                        return (f"match {s} with\n| none => {dead}\n| some ({pat}) =>\n"
                                + indent(self.stmts(rest, env2, fn, cur)))
                    if t[0] != "tuple" or len(t[1]) != len(names):
                        raise TranslateError(f"unpack of {t}")
                    env2 = dict(env)
                    for n, ty in zip(names, t[1]):
                        env2[n] = ty
                    if isinstance(st.value, ast.Name) and s not in [lname(n) for n in names]:
                        lets = "".join(f"let {lname(n)} := {proj(s, len(names), i)}\n" for i, n in enumerate(names))
                        return lets + self.stmts(rest, env2, fn, cur)
                    pat = ", ".join(lname(n) for n in names)
                    return f"match {s} with\n| ({pat}) =>\n" + indent(self.stmts(rest, env2, fn, cur))
                return self.hoist(st.value, env, k, fn.raises, cur)
            raise TranslateError("assignment target")
        if isinstance(st, ast.While):
            return self.while_loop(st, rest, env, fn, cur)
        raise TranslateError(f"unsupported statement {type(st).__name__} in {fn.name}")

    def while_loop(self, st, rest, env, fn, cur):
        """`while cond: <assignments>` -> a fuelled auxiliary recursion over the loop state."""
        assigned = []
        for s in st.body:
            if not isinstance(s, ast.Assign):
                raise TranslateError("while body must be assignments")
            tg = s.targets[0]
            ns = [tg.id] if isinstance(tg, ast.Name) else [x.id for x in tg.elts]
            for n in ns:
                if n not in assigned:
                    assigned.append(n)
        state = [n for n in assigned if n in env]
        for n in state:
            if env[n] not in (INT, NAT):
                raise TranslateError("loop state must be ints")
        fuel = cur["loop_fuel"]
        loop_name = f"{fn.lean_name}_loop"
        sty = " × ".join(env[n] for n in state)
        pat = ", ".join(lname(n) for n in state)
        # body: translate assignments then recursive call
        marker = ast.Return(value=ast.Name(id="__LOOP_STATE__", ctx=ast.Load()))
        env_body = dict(env)

        save_expr = self.expr

        def expr2(e, en):
            if isinstance(e, ast.Name) and e.id == "__LOOP_STATE__":
                return f"{loop_name} fuel ({pat})", "loopstate"
            return save_expr(e, en)
        self.expr = expr2
        loopfn = Fn(loop_name, [], "loopstate", False)
        try:
            body_txt = self.stmts(list(st.body) + [marker], env_body, loopfn, {"fresh": 0, "self": None})
        finally:
            self.expr = save_expr
        c = self.cond(st.test, env)
        aux = (f"def {loop_name} : Nat → {sty} → {sty}\n"
               f"  | 0, st => st\n"
               f"  | fuel+1, ({pat}) =>\n"
               f"    if {c} then\n{indent(body_txt, 6)}\n    else ({pat})")
        cur["aux_defs"].append(aux)
        after = self.stmts(rest, env, fn, cur)
        return f"match {loop_name} ({fuel}) ({pat}) with\n| ({pat}) =>\n" + indent(after)

    # ------------------------------------------------------------------ functions
    def function(self, node, src_lines, path, raises=False, fuel=None, loop_fuel=None, rename=None, ret_override=None,
                 param_override=None):
        params = []
        for a in node.args.args:
            if param_override and a.arg in param_override:
                params.append((a.arg, param_override[a.arg]))
            else:
                if a.annotation is None:
                    raise TranslateError(f"{node.name}: parameter {a.arg} has no annotation")
                params.append((a.arg, ann_to_type(a.annotation, self.mode)))
        if node.args.defaults or node.args.kwonlyargs or node.args.vararg or node.args.kwarg:
            raise TranslateError(f"{node.name}: unsupported parameter kinds")
        ret = ret_override or ann_to_type(node.returns, self.mode)
        fn = Fn(node.name, params, ret, raises, fuel, lean_name=rename or lname(node.name))
        self.fns[node.name] = fn
        env = {n: t for n, t in params}
        cur = {"fresh": 0, "self": node.name if fuel is not None else None, "aux_defs": [], "loop_fuel": loop_fuel,
               "nonnull": set()}
        self.cur = cur
        # dominance analysis for optional parameters: a leading `if <X is None ...>: return` guard
        for st in node.body:
            if isinstance(st, ast.If) and terminates(st.body):
                for n, t in params:
                    if t[0] == "option" and none_implies_true(st.test, n):
                        cur["nonnull"].add(lname(n))
        body = self.stmts(node.body, env, fn, cur)
        seg = "\n".join(src_lines[node.lineno - 1: node.end_lineno])
        sha = hashlib.sha256(seg.encode()).hexdigest()[:16]
        rty = lean_type(ret)
        rty = f"Except PyErr ({rty})" if raises else rty
        hdr = f"/- {path}:{node.lineno}-{node.end_lineno} `{node.name}` sha256:{sha} -/\n"
        out = "".join(a + "\n\n" for a in cur["aux_defs"])
        if fuel is not None:
            ptys = " → ".join(lean_type(t) if t in (F, NAT, INT, BOOL) else "(" + lean_type(t) + ")" for _, t in params)
            pnames = ", ".join(lname(n) for n, _ in params)
            oof = ".error PyErr.other" if raises else self.default_of(ret, params)
            out += (f"{hdr}def {fn.lean_name}Aux : Nat → {ptys} → {rty}\n"
                    f"  | 0, {pnames} => {oof}\n"
                    f"  | fuel+1, {pnames} =>\n{indent(body, 4)}\n\n")
            pdecl = " ".join(f"({lname(n)} : {lean_type(t)})" for n, t in params)
            out += f"def {fn.lean_name} {pdecl} : {rty} :=\n  {fn.lean_name}Aux ({fuel}) {' '.join(lname(n) for n, _ in params)}\n"
        else:
            pdecl = " ".join(f"({lname(n)} : {lean_type(t)})" for n, t in params)
            out += f"{hdr}def {fn.lean_name} {pdecl} : {rty} :=\n{indent(body, 2)}\n"
        return out

    def default_of(self, ret, params):
        # out-of-fuel value of a non-raising fuelled function: return the first parameter of the
        # result type (never reached: the wrapper supplies enough fuel; theorems prove it)
        for n, t in params:
            if t == ret:
                return lname(n)
        raise TranslateError("no out-of-fuel value")


def none_implies_true(test, name):
    """does `name is None` make `test` true? (syntactic, conservative)"""
    if isinstance(test, ast.Compare) and len(test.ops) == 1 and isinstance(test.ops[0], ast.Is):
        return isinstance(test.left, ast.Name) and test.left.id == name and \
            isinstance(test.comparators[0], ast.Constant) and test.comparators[0].value is None
    if isinstance(test, ast.BoolOp) and isinstance(test.op, ast.Or):
        return any(none_implies_true(v, name) for v in test.values)
    return False


def terminates(body):
    if not body:
        return False
    last = body[-1]
    if isinstance(last, (ast.Return, ast.Raise)):
        return True
    if isinstance(last, ast.If):
        return terminates(last.body) and terminates(last.orelse)
    return False


def indent(s, n=2):
    return textwrap.indent(s, " " * n)
