"""
py2lean_bls — extension of `py2lean_extra.ExtraTranslator` for `py_ecc/bls/ciphersuites.py`: the methods of a small,
closed class hierarchy (one base class, leaf subclasses), translated to Lean and proved equal to the hand-written model
`lean/PyEcc/Model/Bls.lean` in `lean/PyEcc/Props/TieBls*.lean`.

What is new with respect to `ExtraTranslator` (everything else is inherited unchanged):

  * METHODS.  `@staticmethod` / `@classmethod` definitions inside `class C(...)`.  A leaf class stands for one value of
    the model type `Suite`; `cls` inside a method of a leaf class is that constant, `cls` inside a method of the base
    class is a parameter `(cls : Suite)` (emitted only if the translated body really depends on it).
    `cls.m(..)` / `super().m(..)` / `cls.ATTR` are resolved by the method resolution order of the classes AS THEY ARE
    IN THE SOURCE: a name with a single definition is called directly, a name with several definitions is called
    through a generated dispatcher `m (cls : Suite) := match cls with | .basic => <definition used by G2Basic> ...`.
  * the class attribute `xmd_hash_function` (checked to be `sha256`, defined once) is the model's hash parameter `H`;
    a function gets a parameter `(H : HashFn)` iff its translated body mentions it.
  * DYNAMIC TYPING of the secret key: a parameter declared `PYARG` has Lean type `PyArg`; `isinstance(x, int) and <rest>`
    is a case split on the constructor with `x` an `Int` in `<rest>`; after a dominating guard
    `if not cls.<g>(x): raise ...`, where the source of `<g>` has been checked to contain `isinstance(.., int)` and
    `.. > 0`, a use of `x` where a natural number is needed is `natVal x` (otherwise such a use is refused).
    `isinstance(b, bytes)` of a value whose static type is `Bytes` is `True`.
  * `try: .. except (A, B): <handler>` in three shapes (whole-body `try` of a `bool` function; `try: x = f(..)` followed
    by the rest of the function; `try .. except .. else ..`), emitted as a `match` on the `Except` value of the `try`
    body, the handler guarded by the listed exception kinds, every other kind re-raised.  A function whose `try` makes
    it total returns the model's `Outcome`.
  * `for` loops whose body may `raise`: `List.forM` (no loop-carried variables) or `List.foldlM`; tuple targets over
    `zip(a, b)`; augmented assignment; `while c: ..` in a raising function as a fuelled recursion (`fuel` parameter).
  * `len(x)`, `len(set(x))`, list comprehension over `zip`, bytes literals, a closed float expression over module
    constants with `ceil`/`log2` (evaluated by the translator, emitted as a literal), `<H>(x).digest()`.
  * NORMALISATIONS (equivalent spellings give the SAME Lean text, so that a behaviour-preserving rewrite of the Python
    leaves the generated file and the tie proofs alone):
      - `if not all(<e> for <x> in <xs>): <raise>`  and  `if any(<e> for <x> in <xs>): <raise>`  are translated as the loops
        `for <x> in <xs>: if not <e>: <raise>`  /  `for <x> in <xs>: if <e>: <raise>`  (a generator expression is consumed
        in order, `all` / `any` stop at the first falsy / truthy element, an exception of `<e>` propagates at once: exactly
        what the loop does; `<xs>` is evaluated once, first, in both);
      - `not a == b` is `a != b` (and `not a != b` is `a == b`) when both operands are ints, byte strings, bools or lists /
        tuples of such (for these builtin types `!=` is by definition the negation of `==`);
      - `return <a> if <c> else <b>` is `if <c>: return <a>` / `else: return <b>`;
      - `return <a1> and .. and <an>` (resp. `or`) in which an operand after the first contains a call that may raise or
        that returns an `Outcome` is `if not <a1>: return False` .. `return <an>` (resp. `if <a1>: return True` ..): the
        operands are evaluated left to right and only as far as Python evaluates them; every operand but the last must be
        bool-valued (a comparison, `not`, a bool variable / call), otherwise the translation is refused.
    A call that may raise under `and` / `or` / `.. if .. else ..` in any other position is refused (it would have to be
    evaluated conditionally).
  * `all(<e> for <x> in <xs>)` / `any(..)` as a VALUE, with `<e>` free of raising calls: `List.all` / `List.any`.

As everywhere in this translator: anything not understood raises `TranslateError`.
"""
import ast
import hashlib
import math

from py2lean import BOOL, INT, LIT, NAT, T, Fn, TranslateError, indent, lname, terminates
from py2lean_extra import BYTES, HASHFN, LIST, Ext, ExtraTranslator, lean_type_x, paren

PYARG = ("pyarg",)
OUTCOME = ("outcome",)
SUITE = ("suite",)
UNIT = ("unit",)

UNIT_MARK = "__UNIT__"
WHILE_MARK = "__WHILE_NEXT__"
WHILE_CALL = "@@WHILE_CALL@@"

KINDS = {"ValueError": "value", "TypeError": "type", "AssertionError": "assertion", "ValidationError": "validation"}


def lean_type_b(t):
    if t == PYARG:
        return "PyArg"
    if t == OUTCOME:
        return "Outcome"
    if t == SUITE:
        return "Suite"
    if t == UNIT:
        return "PUnit"
    return lean_type_x(t)


def bytes_lit(b):
    return "([" + ", ".join(str(x) for x in b) + "] : Bytes)"


def stored_names(body):
    """names bound by assignment statements anywhere in `body` (in order of first appearance)"""
    out = []
    for st in body:
        for n in ast.walk(st):
            if isinstance(n, ast.Name) and isinstance(n.ctx, ast.Store) and n.id not in out:
                out.append(n.id)
    return out


def loaded_names(nodes):
    out = []
    for st in nodes:
        for n in ast.walk(st):
            if isinstance(n, ast.Name) and isinstance(n.ctx, ast.Load) and n.id not in out:
                out.append(n.id)
    return out


def read_before_rebound(stmts, name):
    """may `name` be read in `stmts` while it still holds the value it had before them? (conservative)"""
    def loads(node):
        return any(isinstance(n, ast.Name) and n.id == name and isinstance(n.ctx, ast.Load) for n in ast.walk(node))
    for st in stmts:
        if isinstance(st, ast.Assign):
            if loads(st.value):
                return True
            if len(st.targets) == 1 and isinstance(st.targets[0], ast.Name) and st.targets[0].id == name:
                return False
            if any(loads(t) for t in st.targets):
                return True
        elif isinstance(st, ast.For):
            if loads(st.iter) or st.orelse:
                return True
            tnames = [n.id for n in ast.walk(st.target) if isinstance(n, ast.Name)]
            if name in tnames:
                continue   # inside the body the name is the new loop variable; after the loop it may be either
            if read_before_rebound(st.body, name):
                return True
        elif loads(st):
            return True
    return False


def quantifier_call(e, env):
    """`all(<genexp>)` / `any(<genexp>)` with one `for` clause and no filter: ("all" | "any", generator expression), else None"""
    if isinstance(e, ast.Call) and isinstance(e.func, ast.Name) and e.func.id in ("all", "any") and e.func.id not in env \
            and len(e.args) == 1 and not e.keywords and isinstance(e.args[0], ast.GeneratorExp):
        g = e.args[0]
        if len(g.generators) != 1 or g.generators[0].ifs or g.generators[0].is_async:
            raise TranslateError(f"unsupported generator expression in {e.func.id}(..)")
        return e.func.id, g
    return None


def target_names(t):
    return [n.id for n in ast.walk(t) if isinstance(n, ast.Name)]


class ClassInfo:
    def __init__(self, node):
        self.name = node.name
        self.node = node
        self.bases = [ast.unparse(b) for b in node.bases]
        self.attrs = {}      # data attributes: name -> value node
        self.methods = {}    # name -> (FunctionDef, "static" | "class", abstract?)
        for st in node.body:
            if isinstance(st, ast.Expr) and isinstance(st.value, ast.Constant) and isinstance(st.value.value, str):
                continue  # docstring
            if isinstance(st, ast.Assign) and len(st.targets) == 1 and isinstance(st.targets[0], ast.Name):
                if st.targets[0].id in self.attrs or st.targets[0].id in self.methods:
                    raise TranslateError(f"class {self.name}: {st.targets[0].id} bound twice")
                self.attrs[st.targets[0].id] = st.value
                continue
            if isinstance(st, ast.FunctionDef):
                decs = [ast.unparse(d) for d in st.decorator_list]
                abstract = "abstractmethod" in decs
                decs = [d for d in decs if d != "abstractmethod"]
                if decs not in (["staticmethod"], ["classmethod"]):
                    raise TranslateError(f"{self.name}.{st.name}: decorators {decs} (only static/class methods are supported)")
                if st.name in self.methods or st.name in self.attrs:
                    raise TranslateError(f"class {self.name}: {st.name} bound twice")
                self.methods[st.name] = (st, "static" if decs == ["staticmethod"] else "class", abstract)
                continue
            raise TranslateError(f"class {self.name}: unsupported class-level statement {type(st).__name__}")


class BlsTranslator(ExtraTranslator):
    def __init__(self, tree, lines, rel, base, suites, hash_attr, hash_value, h_externs=(), **kw):
        super().__init__("field", **kw)
        self.tree, self.lines, self.rel = tree, lines, rel
        self.base = base                      # name of the base class
        self.suites = dict(suites)            # leaf class name -> Lean constructor of `Suite` (closed world)
        self.hash_attr = hash_attr
        self.h_externs = set(h_externs)       # external symbols whose Lean template mentions `H`
        self.classes_info = {}
        for n in tree.body:
            if isinstance(n, ast.ClassDef):
                if n.keywords or n.decorator_list:
                    raise TranslateError(f"class {n.name}: keywords/decorators")
                self.classes_info[n.name] = ClassInfo(n)
        if set(self.classes_info) != {base} | set(self.suites):
            raise TranslateError(f"{rel}: classes {sorted(self.classes_info)} differ from the expected closed hierarchy")
        if self.classes_info[base].bases != ["ABC"]:
            raise TranslateError(f"{rel}: bases of {base} are {self.classes_info[base].bases}")
        for s in self.suites:
            if self.classes_info[s].bases != [base]:
                raise TranslateError(f"{rel}: bases of {s} are {self.classes_info[s].bases}, expected [{base}]")
        # the hash attribute: defined exactly once (in the base class), with the expected value
        defs = [c for c in self.classes_info.values() if hash_attr in c.attrs or hash_attr in c.methods]
        if [c.name for c in defs] != [base] or ast.unparse(self.classes_info[base].attrs.get(hash_attr, ast.Constant(0))) != hash_value:
            raise TranslateError(f"{rel}: class attribute {hash_attr} is not `{hash_value}` defined once in {base}")
        self.sites = {}        # (class, method) -> record
        self.dispatch = {}     # method -> record
        self.int_guards = {}   # (class, method) -> index of the parameter it proves to be a positive int
        self.attr_defs = {}    # attribute -> "dispatch" | "single"
        # per-definition context
        self.cur_class = None
        self.cls_expr = None
        self.cur_suites = []
        self.uses_H = False
        self.uses_cls = False
        self.narrowed = set()
        self.while_ctx = None

    # ------------------------------------------------------------------ class structure
    def mro(self, cname):
        return [cname] if cname == self.base else [cname, self.base]

    def lookup(self, cname, name, after=None):
        """the class whose definition of method/attribute `name` an instance of class `cname` sees
        (`after`: start the search after that class, for `super()`)"""
        chain = self.mro(cname)
        if after is not None:
            chain = chain[chain.index(after) + 1:]
        for c in chain:
            ci = self.classes_info[c]
            if name in ci.methods:
                if ci.methods[name][2]:
                    raise TranslateError(f"{cname}.{name} resolves to an abstract method")
                return c
            if name in ci.attrs:
                return c
        raise TranslateError(f"{cname} has no attribute {name}")

    def definers(self, name):
        """classes holding a (non-abstract) definition of `name` that some leaf class actually sees"""
        out = []
        for s in self.suites:
            if not self._sees(s, name):
                continue
            c = self.lookup(s, name)
            if c not in out:
                out.append(c)
        return out

    # ------------------------------------------------------------------ class data attributes
    def emit_attr(self, name):
        seen_by = [s for s in self.suites if self._sees(s, name)]
        for s in seen_by:
            c = self.lookup(s, name)
            v = self.classes_info[c].attrs.get(name)
            if not (isinstance(v, ast.Constant) and isinstance(v.value, bytes)):
                raise TranslateError(f"{c}.{name} is not a bytes literal")
        if len(seen_by) == len(self.suites):
            self.attr_defs[name] = "dispatch"
            arms = []
            for s, ctor in self.suites.items():
                c = self.lookup(s, name)
                v = self.classes_info[c].attrs[name]
                arms.append(f"  | {ctor} => {bytes_lit(v.value)}  -- {c}.{name} = {v.value!r}\n")
            return (f"/- class attribute `{name}` as seen by each leaf class ({self.rel}) -/\n"
                    f"def {lname(name)} : Suite → Bytes\n" + "".join(arms))
        if len(seen_by) == 1:
            self.attr_defs[name] = ("single", seen_by[0])
            c = self.lookup(seen_by[0], name)
            v = self.classes_info[c].attrs[name]
            return (f"/- class attribute `{c}.{name}` = {v.value!r} ({self.rel}:{v.lineno}) -/\n"
                    f"def {lname(name)} : Bytes := {bytes_lit(v.value)}\n")
        raise TranslateError(f"class attribute {name}: seen by {seen_by}")

    def _sees(self, cname, name):
        try:
            self.lookup(cname, name)
            return True
        except TranslateError:
            return False

    def cls_attr(self, attr):
        if self.cur_class is None:
            raise TranslateError("cls outside a class method")
        if attr == self.hash_attr:
            self.uses_H = True
            return "H", HASHFN
        kind = self.attr_defs.get(attr)
        if kind is None:
            raise TranslateError(f"class attribute cls.{attr} was not emitted")
        for s in self.cur_suites:
            self.lookup(s, attr)   # AttributeError in Python otherwise
        if kind == "dispatch":
            if self.cls_expr == "cls":
                self.uses_cls = True
            return f"({lname(attr)} {self.cls_expr})", BYTES
        if self.cur_suites != [kind[1]]:
            raise TranslateError(f"cls.{attr} used where cls may be {self.cur_suites}")
        return lname(attr), BYTES

    # ------------------------------------------------------------------ method calls
    def method_ext(self, mname, after=None):
        """the external symbol a call `cls.mname(..)` (or `super().mname(..)`) denotes in the current context"""
        if self.cur_class is None:
            raise TranslateError("method call outside a class method")
        targets = []
        for s in self.cur_suites:
            c = self.lookup(s, mname, after=after)
            if mname not in self.classes_info[c].methods:
                raise TranslateError(f"{c}.{mname} is not a method")
            if c not in targets:
                targets.append(c)
        all_defs = self.definers(mname)
        if len(all_defs) == 1 or after is not None:
            if len(targets) != 1:
                raise TranslateError(f"super().{mname} is ambiguous")
            rec = self.sites.get((targets[0], mname))
            if rec is None:
                raise TranslateError(f"{targets[0]}.{mname} is called before it has been translated")
            lean = rec["lean"]
            if rec["uses_H"]:
                self.uses_H = True
                lean += " H"
            if rec["takes_cls"]:
                if self.cls_expr == "cls":
                    self.uses_cls = True
                lean += f" {self.cls_expr}"
            return Ext(lean, rec["params"], rec["ret"], rec["raises"], defaults=rec["defaults"]), (targets[0], mname)
        rec = self.dispatch.get(mname)
        if rec is None:
            raise TranslateError(f"dispatcher of {mname} is used before it has been emitted")
        lean = rec["lean"]
        if rec["uses_H"]:
            self.uses_H = True
            lean += " H"
        if self.cls_expr == "cls":
            self.uses_cls = True
        lean += f" {self.cls_expr}"
        return Ext(lean, rec["params"], rec["ret"], rec["raises"]), None

    def method_of_call(self, e):
        """(method name, `after` class) if e.func is `cls.m` or `super().m`, else None"""
        f = e.func
        if isinstance(f, ast.Attribute) and isinstance(f.value, ast.Name) and f.value.id == "cls":
            return f.attr, None
        if isinstance(f, ast.Attribute) and isinstance(f.value, ast.Call) and isinstance(f.value.func, ast.Name) \
                and f.value.func.id == "super" and not f.value.args and not f.value.keywords:
            return f.attr, self.cur_class
        return None

    def call_raises(self, e):
        """can evaluating the call node e (not its arguments) raise?"""
        m = self.method_of_call(e)
        if m is not None and self.cur_class is not None:
            save = (self.uses_H, self.uses_cls)
            try:
                ext, _ = self.method_ext(m[0], after=m[1])
            finally:
                self.uses_H, self.uses_cls = save
            return ext.raises
        if isinstance(e.func, ast.Name) and e.func.id in self.externs:
            return self.externs[e.func.id].raises
        return False

    def can_raise(self, body):
        for st in body:
            for n in ast.walk(st):
                if isinstance(n, ast.Raise):
                    return True
                if isinstance(n, ast.Call) and self.call_raises(n):
                    return True
        return False

    def ext_call(self, name, ext, e, env):
        if name in self.h_externs:
            self.uses_H = True
        return super().ext_call(name, ext, e, env)

    # ------------------------------------------------------------------ expressions
    def closed_float(self, e):
        """value of a closed expression over module int constants, literals, + - * / and ceil / log2 (math), or None"""
        allowed_calls = {"ceil": math.ceil, "log2": math.log2}
        names = set()
        for n in ast.walk(e):
            if isinstance(n, ast.Name):
                names.add(n.id)
            elif isinstance(n, ast.Call):
                if not (isinstance(n.func, ast.Name) and n.func.id in allowed_calls and len(n.args) == 1 and not n.keywords):
                    return None
            elif isinstance(n, ast.Constant):
                if not isinstance(n.value, (int, float)) or isinstance(n.value, bool):
                    return None
            elif not isinstance(n, (ast.BinOp, ast.Add, ast.Sub, ast.Mult, ast.Div, ast.Load)):
                return None
        scope = dict(allowed_calls)
        for n in names:
            if n in allowed_calls:
                continue
            if n not in self.const_values:
                return None
            scope[n] = self.const_values[n]
        v = eval(compile(ast.Expression(body=e), "<closed>", "eval"), {"__builtins__": {}}, scope)  # noqa: S307
        if not isinstance(v, int) or isinstance(v, bool):
            raise TranslateError(f"closed expression {ast.unparse(e)} evaluates to a non-int")
        return v

    def expr(self, e, env):
        if isinstance(e, ast.Name) and e.id in self.narrowed and env.get(e.id) == PYARG:
            return f"(natVal {lname(e.id)})", NAT
        if isinstance(e, ast.Constant) and isinstance(e.value, bytes):
            return bytes_lit(e.value), BYTES
        if isinstance(e, ast.Attribute) and isinstance(e.value, ast.Name) and e.value.id == "cls" and "cls" not in env:
            return self.cls_attr(e.attr)
        if isinstance(e, ast.Call) and isinstance(e.func, ast.Name) and e.func.id == "ceil" and "ceil" not in env:
            if any(isinstance(n, ast.Name) and n.id in env for n in ast.walk(e)):
                raise TranslateError(f"non-closed float expression {ast.unparse(e)}")
            v = self.closed_float(e)
            if v is None:
                raise TranslateError(f"unsupported closed expression {ast.unparse(e)}")
            return v, LIT
        if isinstance(e, ast.ListComp):
            return self.listcomp(e, env)
        return super().expr(e, env)

    def listcomp(self, e, env):
        if len(e.generators) != 1:
            raise TranslateError("nested comprehension")
        g = e.generators[0]
        if g.ifs or g.is_async:
            raise TranslateError("comprehension with a filter")
        it, itt = self.iterable(g.iter, env)
        if not (isinstance(itt, tuple) and itt[0] == "list"):
            raise TranslateError(f"comprehension over {itt}")
        env2, lets = self.bind_target(g.target, itt[1], env, "it")
        save, self.binds = self.binds, None   # no raising call inside the element expression
        try:
            s, t = self.expr(e.elt, env2)
        finally:
            self.binds = save
        s, t = self.norm_val(s, t)
        body = "".join(f"let {a} := {b}; " for a, b in lets) + str(s)
        return f"(List.map (fun (it : {lean_type_b(itt[1])}) => {body}) {paren(it)})", LIST(t)

    def quantifier_value(self, which, g, env):
        """`all(<e> for <x> in <xs>)` / `any(..)` as a value: `List.all` / `List.any` (no raising call inside `<e>`: the
        element test is then a total, effect-free function, for which stopping early or not is unobservable)"""
        gen = g.generators[0]
        it, itt = self.iterable(gen.iter, env)
        if not (isinstance(itt, tuple) and itt[0] == "list"):
            raise TranslateError(f"{which}(..) over {itt}")
        env2, lets = self.bind_target(gen.target, itt[1], env, "it")
        save, self.binds = self.binds, None   # a raising call inside the element test is refused by `ext_call`
        try:
            c = self.cond(g.elt, env2)
        finally:
            self.binds = save
        body = "".join(f"let {a} := {b}; " for a, b in lets) + f"decide {c}"
        fn = "List.all" if which == "all" else "List.any"
        return f"({fn} {paren(it)} (fun (it : {lean_type_b(itt[1])}) => {body}))", BOOL

    def bind_target(self, target, et, env, var):
        """bind a loop / comprehension target to the element `var` of type et: (new env, [(name, projection)])"""
        env2 = dict(env)
        if isinstance(target, ast.Name):
            env2[target.id] = et
            return env2, [(lname(target.id), var)]
        if isinstance(target, ast.Tuple) and all(isinstance(x, ast.Name) for x in target.elts):
            names = [x.id for x in target.elts]
            if len(set(names)) != len(names):
                raise TranslateError("repeated name in a loop target")
            if not (isinstance(et, tuple) and et[0] == "tuple" and len(et[1]) == len(names)):
                raise TranslateError(f"unpacking {et} into {len(names)} loop variables")
            from py2lean import proj
            lets = []
            for i, (n, ty) in enumerate(zip(names, et[1])):
                env2[n] = ty
                lets.append((lname(n), proj(var, len(names), i)))
            return env2, lets
        raise TranslateError("unsupported loop target")

    def iterable(self, e, env):
        if isinstance(e, ast.Call) and isinstance(e.func, ast.Name) and e.func.id == "zip" and "zip" not in env:
            if len(e.args) != 2 or e.keywords:
                raise TranslateError("zip with other than two arguments")
            a, ta = self.expr(e.args[0], env)
            b, tb = self.expr(e.args[1], env)
            for t in (ta, tb):
                if not (isinstance(t, tuple) and t[0] == "list"):
                    raise TranslateError(f"zip of {t}")
            return f"(List.zip {paren(a)} {paren(b)})", LIST(T(ta[1], tb[1]))
        return super().iterable(e, env)

    BUILTIN_EQ = (NAT, INT, LIT, BOOL, BYTES)

    def builtin_eq_type(self, t):
        """a type whose Python `!=` is by definition `not ==` (int, bool, bytes, lists / tuples of such)"""
        if t in self.BUILTIN_EQ:
            return True
        if isinstance(t, tuple) and t[0] == "list":
            return self.builtin_eq_type(t[1])
        if isinstance(t, tuple) and t[0] == "tuple":
            return all(self.builtin_eq_type(x) for x in t[1])
        return False

    def lookahead(self, e, env):
        """the static type of e (translation discarded; hoisted calls and fresh names rolled back)"""
        mark = (None if self.binds is None else len(self.binds)), self.fresh
        save = (self.uses_H, self.uses_cls)
        had = self.binds is not None
        if not had:
            self.binds = []
        try:
            _, t = self.expr(e, env)
        finally:
            if had:
                del self.binds[mark[0]:]
            else:
                self.binds = None
            self.fresh = mark[1]
            self.uses_H, self.uses_cls = save
        return t

    def cond(self, e, env):
        # `not a == b`  ==  `a != b`,  `not a != b`  ==  `a == b`  on builtin value types
        if isinstance(e, ast.UnaryOp) and isinstance(e.op, ast.Not) and isinstance(e.operand, ast.Compare) \
                and len(e.operand.ops) == 1 and isinstance(e.operand.ops[0], (ast.Eq, ast.NotEq)):
            c = e.operand
            ta, tb = self.lookahead(c.left, env), self.lookahead(c.comparators[0], env)
            if self.builtin_eq_type(ta) and self.builtin_eq_type(tb):
                flipped = ast.Compare(left=c.left, ops=[ast.NotEq() if isinstance(c.ops[0], ast.Eq) else ast.Eq()],
                                      comparators=c.comparators)
                ast.copy_location(flipped, e)
                return self.cond(flipped, env)
        # `isinstance(x, int) and <rest>` on a dynamically typed x: <rest> sees x as an int
        if isinstance(e, ast.BoolOp) and isinstance(e.op, ast.And) and len(e.values) >= 2:
            v0 = e.values[0]
            x = self.isinstance_int(v0, env)
            if x is not None:
                env2 = dict(env)
                env2[x] = INT
                rest = e.values[1] if len(e.values) == 2 else ast.BoolOp(op=ast.And(), values=e.values[1:])
                r = self.cond(rest, env2)
                return f"((match {lname(x)} with | PyArg.int {lname(x)} => decide {r} | PyArg.other => false) = true)"
        return super().cond(e, env)

    def isinstance_int(self, v, env):
        if isinstance(v, ast.Call) and isinstance(v.func, ast.Name) and v.func.id == "isinstance" and "isinstance" not in env \
                and len(v.args) == 2 and not v.keywords and isinstance(v.args[0], ast.Name) \
                and isinstance(v.args[1], ast.Name) and v.args[1].id == "int" and env.get(v.args[0].id) == PYARG \
                and v.args[0].id not in self.narrowed:
            return v.args[0].id
        return None

    def call(self, e, env):
        f = e.func
        m = self.method_of_call(e)
        if m is not None and "cls" not in env and "super" not in env:
            ext, _ = self.method_ext(m[0], after=m[1])
            return self.ext_call(f"{self.cur_class}.{m[0]}", ext, e, env)
        # <H>(x).digest()
        if isinstance(f, ast.Attribute) and f.attr == "digest" and not e.args and not e.keywords \
                and isinstance(f.value, ast.Call) and len(f.value.args) == 1 and not f.value.keywords:
            hs, ht = self.expr(f.value.func, env) if isinstance(f.value.func, ast.Attribute) else (None, None)
            if ht != HASHFN:
                raise TranslateError(f"unsupported call {ast.unparse(e)[:60]}")
            s, t = self.expr(f.value.args[0], env)
            if t != BYTES:
                raise TranslateError("hash of non-bytes")
            return f"({hs}.run {paren(s)})", BYTES
        q = quantifier_call(e, env)
        if q is not None:
            return self.quantifier_value(q[0], q[1], env)
        if isinstance(f, ast.Name) and f.id not in env:
            if f.id == "isinstance" and len(e.args) == 2 and not e.keywords and isinstance(e.args[1], ast.Name):
                s, t = self.expr(e.args[0], env)
                ty = e.args[1].id
                if ty == "bytes" and t == BYTES:
                    return "True", "prop"      # statically a byte string
                if ty == "int" and t == PYARG and isinstance(e.args[0], ast.Name):
                    return f"((match {s} with | PyArg.int _ => true | PyArg.other => false) = true)", "prop"
                raise TranslateError(f"isinstance({t}, {ty})")
            if f.id == "len" and len(e.args) == 1 and not e.keywords:
                a = e.args[0]
                if isinstance(a, ast.Call) and isinstance(a.func, ast.Name) and a.func.id == "set" and "set" not in env \
                        and len(a.args) == 1 and not a.keywords:
                    s, t = self.expr(a.args[0], env)
                    if t != LIST(BYTES):
                        raise TranslateError(f"set of {t}")
                    return f"(List.eraseDups {paren(s)}).length", NAT   # number of distinct elements
                s, t = self.expr(a, env)
                if t == BYTES or (isinstance(t, tuple) and t[0] == "list"):
                    return f"{paren(s)}.length", NAT
                raise TranslateError(f"len of {t}")
        return super().call(e, env)

    # ------------------------------------------------------------------ statements
    def ret_stmt(self, value, env, fn):
        if fn.ret == OUTCOME:
            if fn.raises:
                raise TranslateError("Outcome function declared raising")
            pre, s, t, _ = self.hexpr(value, env, fn)
            if pre:
                raise TranslateError(f"{fn.name}: raising call in an Outcome function outside `try`")
            if t == OUTCOME:
                return s
            s, t = self.norm_val(s, t) if t == "prop" else (s, t)
            if t == BOOL:
                return f"Outcome.returned {paren(s)}"
            raise TranslateError(f"{fn.name}: returns {t} where a bool is declared")
        return super().ret_stmt(value, env, fn)

    def hexpr(self, e, env, fn, direct=False):
        pre, s, t, is_call = super().hexpr(e, env, fn, direct=direct)
        if (pre or is_call) and any(isinstance(n, (ast.BoolOp, ast.IfExp)) for n in ast.walk(e)):
            # a hoisted call would be evaluated unconditionally, Python evaluates it only if the operands before it say so
            raise TranslateError(f"{fn.name}: raising call under a short-circuit operator in {ast.unparse(e)[:60]}")
        return pre, s, t, is_call

    def needs_flow(self, nodes):
        """does one of the expressions contain a call that may raise, or a call of a method returning an `Outcome`?"""
        for x in nodes:
            for n in ast.walk(x):
                if not isinstance(n, ast.Call):
                    continue
                if self.call_raises(n):
                    return True
                m = self.method_of_call(n)
                if m is not None and self.cur_class is not None:
                    save = (self.uses_H, self.uses_cls)
                    try:
                        ext, _ = self.method_ext(m[0], after=m[1])
                    finally:
                        self.uses_H, self.uses_cls = save
                    if ext.ret == OUTCOME:
                        return True
        return False

    def is_bool_expr(self, e, env):
        """is the Python VALUE of e certainly a bool (not merely something with a truth value)?"""
        if isinstance(e, ast.Constant):
            return isinstance(e.value, bool)
        if isinstance(e, ast.UnaryOp) and isinstance(e.op, ast.Not):
            return True
        if isinstance(e, ast.BoolOp):
            return all(self.is_bool_expr(v, env) for v in e.values)
        if isinstance(e, ast.Compare):
            # the comparisons this translator accepts are between ints, byte strings, lists, bools, field elements,
            # `is None`, `in <tuple display>`: all of them return a bool
            return True
        if isinstance(e, (ast.Name, ast.Call)):
            return self.lookahead(e, env) in (BOOL, "prop")
        return False

    def return_flow(self, value, env, fn):
        """statements equivalent to `return <value>` when <value> needs control flow (see NORMALISATIONS), else None"""
        def ret(v):
            r = ast.Return(value=v)
            ast.copy_location(r, value)
            return ast.fix_missing_locations(r)
        if isinstance(value, ast.IfExp):
            new = ast.If(test=value.test, body=[ret(value.body)], orelse=[ret(value.orelse)])
            ast.copy_location(new, value)
            return [ast.fix_missing_locations(new)]
        if isinstance(value, ast.BoolOp) and len(value.values) >= 2 and self.needs_flow(value.values[1:]):
            first, others = value.values[0], value.values[1:]
            if not self.is_bool_expr(first, env):
                raise TranslateError(f"{fn.name}: operand {ast.unparse(first)[:40]} of and/or is not known to be a bool")
            is_and = isinstance(value.op, ast.And)
            test = ast.UnaryOp(op=ast.Not(), operand=first) if is_and else first
            new = ast.If(test=test, body=[ret(ast.Constant(value=not is_and))], orelse=[])
            ast.copy_location(new, value)
            tail = others[0] if len(others) == 1 else ast.BoolOp(op=value.op, values=others)
            return [ast.fix_missing_locations(new), ret(tail)]
        return None

    def hcond(self, test, env, fn):
        """condition with raising calls hoisted in front (only where Python evaluates them unconditionally)"""
        if self.binds is not None:
            raise TranslateError("nested hoisting")
        self.binds = []
        try:
            c = self.cond(test, env)
            binds = self.binds
        finally:
            self.binds = None
        if binds:
            if not fn.raises:
                raise TranslateError(f"call to a raising function in non-raising {fn.name}")
            if any(isinstance(n, (ast.BoolOp, ast.IfExp)) for n in ast.walk(test)):
                raise TranslateError(f"{fn.name}: raising call under a short-circuit operator in a condition")
        return "".join(f"let {v} ← {txt}\n" for v, txt in binds), c

    def guard_narrows(self, st):
        """`if not cls.<g>(x): <exit>` with <g> a checked positive-int guard: the name x, else None"""
        t = st.test
        if st.orelse or not terminates(st.body):
            return None
        if not (isinstance(t, ast.UnaryOp) and isinstance(t.op, ast.Not) and isinstance(t.operand, ast.Call)):
            return None
        c = t.operand
        m = self.method_of_call(c)
        if m is None or len(c.args) != 1 or c.keywords or not isinstance(c.args[0], ast.Name):
            return None
        save = (self.uses_H, self.uses_cls)
        try:
            _, site = self.method_ext(m[0], after=m[1])
        finally:
            self.uses_H, self.uses_cls = save
        if site is not None and self.int_guards.get(site) == 0:
            return c.args[0].id
        return None

    def block(self, body, env, fn, cur, tail_state=None):
        if tail_state is not None or not body:
            return super().block(body, env, fn, cur, tail_state=tail_state)
        st, rest = body[0], body[1:]
        if isinstance(st, ast.Return) and st.value is not None and not rest:
            flow = self.return_flow(st.value, env, fn)
            if flow is not None:
                return self.block(flow, env, fn, cur)
        if isinstance(st, ast.Return) and isinstance(st.value, ast.Name):
            if st.value.id == UNIT_MARK:
                return "pure PUnit.unit"
            if st.value.id == WHILE_MARK:
                names, types = self.while_ctx
                for n, t in zip(names, types):
                    if env.get(n) != t:
                        raise TranslateError(f"loop-carried variable {n} changes type ({t} -> {env.get(n)})")
                return WHILE_CALL
        if isinstance(st, ast.Raise):
            if not (isinstance(st.exc, ast.Call) and all(isinstance(a, ast.Constant) and isinstance(a.value, str)
                                                          for a in st.exc.args) and not st.exc.keywords):
                raise TranslateError(f"{fn.name}: exception arguments must be string literals")
            return super().block(body, env, fn, cur)
        if isinstance(st, ast.AugAssign):
            if not isinstance(st.target, ast.Name):
                raise TranslateError("augmented assignment to a non-name")
            params = {n for n, _ in fn.params}
            if st.target.id in params and isinstance(st.op, ast.Add) and env.get(st.target.id) not in (NAT, INT):
                # `x += y` on a parameter updates the caller's object in place when it is a bytearray / list: the value
                # semantics of this translation (re-binding) would not describe that
                raise TranslateError(f"{fn.name}: augmented assignment to the parameter {st.target.id} (in place for a mutable argument)")
            new = ast.Assign(targets=[ast.Name(id=st.target.id, ctx=ast.Store())],
                             value=ast.BinOp(left=ast.Name(id=st.target.id, ctx=ast.Load()), op=st.op, right=st.value))
            ast.copy_location(new, st)
            ast.fix_missing_locations(new)
            return self.block([new] + rest, env, fn, cur)
        if isinstance(st, ast.If):
            return self.if_stmt(st, rest, env, fn, cur)
        if isinstance(st, ast.For):
            return self.for_stmt(st, rest, env, fn, cur)
        if isinstance(st, ast.While):
            return self.while_stmt(st, rest, env, fn, cur)
        if isinstance(st, ast.Try):
            return self.try_stmt(st, rest, env, fn, cur)
        return super().block(body, env, fn, cur)

    def quantifier_guard(self, st, env):
        """`if not all(G): <exit>` / `if any(G): <exit>` (no else): the equivalent `for` loop, else None"""
        t = st.test
        neg = False
        if isinstance(t, ast.UnaryOp) and isinstance(t.op, ast.Not):
            neg, t = True, t.operand
        q = quantifier_call(t, env)
        if q is None or st.orelse or not terminates(st.body):
            return None
        which, g = q
        if (which == "all") != neg:
            return None       # `if all(..)` / `if not any(..)`: the exit is taken after the whole sequence, not inside it
        gen = g.generators[0]
        bound = set(target_names(gen.target))
        if bound & set(loaded_names(st.body)):
            # inside the loop the name would be the loop variable, in the Python it is whatever the enclosing scope has
            raise TranslateError(f"the body of `if {ast.unparse(st.test)[:40]}` mentions the generator's variable")
        elt = ast.UnaryOp(op=ast.Not(), operand=g.elt) if which == "all" else g.elt
        inner = ast.If(test=elt, body=st.body, orelse=[])
        loop = ast.For(target=gen.target, iter=gen.iter, body=[inner], orelse=[])
        for n in (inner, loop):
            ast.copy_location(n, st)
        return ast.fix_missing_locations(loop)

    def if_stmt(self, st, rest, env, fn, cur):
        loop = self.quantifier_guard(st, env)
        if loop is not None:
            return self.for_stmt(loop, rest, env, fn, cur)
        tb, te = terminates(st.body), terminates(st.orelse)
        if tb and te:
            if rest:
                raise TranslateError(f"{fn.name}: unreachable statements after if/else")
            pre, c = self.hcond(st.test, env, fn)
            a = self.block(st.body, dict(env), fn, cur)
            b = self.block(st.orelse, dict(env), fn, cur)
            return f"{pre}if {c} then\n{indent(a)}\nelse\n{indent(b)}"
        if tb and not st.orelse:
            x = self.guard_narrows(st)
            pre, c = self.hcond(st.test, env, fn)
            a = self.block(st.body, dict(env), fn, cur)
            save = set(self.narrowed)
            if x is not None:
                if env.get(x) != PYARG:
                    raise TranslateError(f"{fn.name}: guard on {x} of type {env.get(x)}")
                self.narrowed.add(x)
            try:
                r = self.block(rest, env, fn, cur)
            finally:
                self.narrowed = save
            if fn.raises:
                return f"{pre}if {c} then\n{indent(a)}\n{r}"
            return f"{pre}if {c} then\n{indent(a)}\nelse\n{indent(r)}"
        if self.can_raise([ast.Expr(value=st.test)]):
            raise TranslateError(f"{fn.name}: raising call in the condition of a non-exiting `if`")
        return super().block([st] + rest, env, fn, cur)

    def loop_checks(self, st, rest, env, fn, loop_vars):
        if st.orelse:
            raise TranslateError(f"{fn.name}: loop with an else clause")
        for n in ast.walk(ast.Module(body=st.body, type_ignores=[])):
            if isinstance(n, (ast.Return, ast.Break, ast.Continue, ast.Yield, ast.Lambda, ast.FunctionDef, ast.Global, ast.Nonlocal)):
                raise TranslateError(f"{fn.name}: {type(n).__name__} inside a loop body")
        assigned = stored_names(st.body)
        for v in loop_vars:
            if v in assigned:
                raise TranslateError(f"{fn.name}: loop variable {v} reassigned")
        used_after = set(loaded_names(rest))
        for v in loop_vars:
            if read_before_rebound(rest, v):
                raise TranslateError(f"{fn.name}: loop variable {v} used after the loop")
        state = sorted(n for n in assigned if n in env)
        for n in assigned:
            if n not in env and n in used_after:
                raise TranslateError(f"{fn.name}: variable {n} defined only inside the loop is used after it")
        return state

    def for_stmt(self, st, rest, env, fn, cur):
        if isinstance(st.target, ast.Name):
            loop_vars = [st.target.id]
        elif isinstance(st.target, ast.Tuple) and all(isinstance(x, ast.Name) for x in st.target.elts):
            loop_vars = [x.id for x in st.target.elts]
        else:
            raise TranslateError(f"{fn.name}: unsupported for target")
        it, itt = self.iterable(st.iter, env)
        if not (isinstance(itt, tuple) and itt[0] == "list"):
            raise TranslateError(f"{fn.name}: for loop over {itt}")
        state = self.loop_checks(st, rest, env, fn, loop_vars)
        raising = self.can_raise(st.body)
        if raising and not fn.raises:
            raise TranslateError(f"{fn.name}: raising statement in a loop of a non-raising function")
        env_body, lets = self.bind_target(st.target, itt[1], env, "it")
        single = isinstance(st.target, ast.Name)
        var = lname(st.target.id) if single else "it"
        if single:
            lets = []
        lets_txt = "".join(f"let {a} := {b}\n" for a, b in lets)
        do = " do" if raising else ""
        # the loop body becomes a top-level definition taking the free local variables (and H / cls) as parameters,
        # so that the tie lemmas about the loop can name it
        k = cur.get("nloops", 0)
        cur["nloops"] = k + 1
        aux_name = f"{fn.lean_name}_loop{k}"
        assigned = stored_names(st.body)
        free = [n for n in env if n not in state and n not in loop_vars and n not in assigned and n in loaded_names(st.body)]
        for n in free:
            if n in self.narrowed:
                raise TranslateError(f"{fn.name}: narrowed variable {n} used inside a loop body")
        save_H, save_cls = self.uses_H, self.uses_cls
        self.uses_H = self.uses_cls = False
        try:
            if not state:
                if not raising:
                    raise TranslateError(f"{fn.name}: loop without loop-carried state and without effect")
                sty, pat = UNIT, None
                loopfn = Fn(fn.name + ".<loop>", [], UNIT, True)
                marker = ast.Return(value=ast.Name(id=UNIT_MARK, ctx=ast.Load()))
                body_txt = self.block(list(st.body) + [marker], env_body, loopfn, cur)
            else:
                sty = T(*[env[n] for n in state]) if len(state) > 1 else env[state[0]]
                pat = "(" + ", ".join(lname(n) for n in state) + ")" if len(state) > 1 else lname(state[0])
                mname = f"__LOOP_STATE_{len(self.markers)}__"
                marker = ast.Return(value=ast.Name(id=mname, ctx=ast.Load()))
                loopfn = Fn(fn.name + ".<loop>", [], sty, raising)
                self.markers[mname] = (list(state), [env[n] for n in state])
                try:
                    body_txt = self.block(list(st.body) + [marker], env_body, loopfn, cur)
                finally:
                    del self.markers[mname]
            body_H, body_cls = self.uses_H, self.uses_cls
        finally:
            self.uses_H, self.uses_cls = save_H or self.uses_H, save_cls or self.uses_cls
        if body_cls and self.cls_expr != "cls":
            raise TranslateError("internal: cls parameter used where cls is a constant")
        pdecl = " ".join((["(H : HashFn)"] if body_H else []) + (["(cls : Suite)"] if body_cls else [])
                         + [f"({lname(n)} : {lean_type_b(env[n])})" for n in free])
        pargs = " ".join([aux_name] + (["H"] if body_H else []) + (["cls"] if body_cls else []) + [lname(n) for n in free])
        pargs = f"({pargs})" if " " in pargs else pargs
        rty = f"Except PyErr ({lean_type_b(sty)})" if raising else lean_type_b(sty)
        if not state:
            sdecl, inner = "", lets_txt + body_txt
        elif len(state) > 1:
            sdecl, inner = f"(st : {lean_type_b(sty)}) ", f"let {pat} := st\n" + lets_txt + body_txt
        else:
            sdecl, inner = f"({pat} : {lean_type_b(sty)}) ", lets_txt + body_txt
        cur["aux_defs"].append(
            f"/- body of the `for` loop at line {st.lineno} of `{fn.name}`"
            + (f"; loop-carried state: {pat}" if state else "; no loop-carried state") + " -/\n"
            f"def {aux_name} {pdecl}{' ' if pdecl else ''}{sdecl}({var} : {lean_type_b(itt[1])}) : {rty} :={do}\n"
            + indent(inner, 2))
        if not state:
            line = f"List.forM {paren(it)} {pargs}\n"
        elif raising:
            line = f"let {pat} ← List.foldlM {pargs} {pat} {paren(it)}\n"
        else:
            line = f"let {pat} := List.foldl {pargs} {pat} {paren(it)}\n"
        return line + self.block(rest, env, fn, cur)

    def while_stmt(self, st, rest, env, fn, cur):
        """`while c: <body>` in a raising function: a recursion on an explicit `fuel` argument.  With fuel 0 the loop
        returns its state if the condition is false and raises `PyErr.other` (out of fuel) if it would have to run."""
        if not cur.get("fuel"):
            raise TranslateError(f"{fn.name}: while loop in a function without a fuel parameter")
        if not fn.raises:
            raise TranslateError(f"{fn.name}: while loop in a non-raising function")
        if self.while_ctx is not None:
            raise TranslateError("nested while loops")
        if cur.get("while_done"):
            raise TranslateError(f"{fn.name}: more than one while loop")
        state = self.loop_checks(st, rest, env, fn, [])
        if not state:
            raise TranslateError(f"{fn.name}: while loop without loop-carried state")
        if self.can_raise([ast.Expr(value=st.test)]):
            raise TranslateError(f"{fn.name}: raising call in a while condition")
        types = [env[n] for n in state]
        sty = T(*types) if len(state) > 1 else types[0]
        pat = "(" + ", ".join(lname(n) for n in state) + ")" if len(state) > 1 else lname(state[0])
        free = [n for n in env if n not in state and n in loaded_names(list(st.body) + [ast.Expr(value=st.test)])]
        for n in free:
            if isinstance(env[n], tuple) and env[n][0] == "fn":
                raise TranslateError("function-valued free variable in a while loop")
        c = self.cond(st.test, env)
        loopfn = Fn(fn.name + ".<while>", [], sty, True)
        marker = ast.Return(value=ast.Name(id=WHILE_MARK, ctx=ast.Load()))
        save_H, save_cls = self.uses_H, self.uses_cls
        self.uses_H = self.uses_cls = False
        self.while_ctx = (list(state), types)
        try:
            body_txt = self.block(list(st.body) + [marker], dict(env), loopfn, cur)
            body_H, body_cls = self.uses_H, self.uses_cls
        finally:
            self.while_ctx = None
            self.uses_H, self.uses_cls = save_H or self.uses_H, save_cls or self.uses_cls
        if body_cls:
            raise TranslateError(f"{fn.name}: while body depends on cls")
        loop_name = f"{fn.lean_name}_loop"
        hdecl = "(H : HashFn) " if body_H else ""
        hargs = "H " if body_H else ""
        fargs = "".join(lname(n) + " " for n in free)
        call = f"{loop_name} {hargs}{fargs}"
        body_txt = body_txt.replace(WHILE_CALL, f"{call}fuel {pat}")
        pdecl = "".join(f"({lname(n)} : {lean_type_b(env[n])}) " for n in free)
        aux = (f"/- the `while` loop at line {st.lineno} of `{fn.name}`; loop-carried state: {pat}; with fuel 0 the loop returns\n"
               f"   if its condition is false and raises `PyErr.other` (out of fuel) otherwise -/\n"
               f"def {loop_name} {hdecl}{pdecl}: Nat → {paren(lean_type_b(sty))} → Except PyErr ({lean_type_b(sty)})\n"
               f"  | 0, {pat} => if {c} then throw PyErr.other else pure {pat}\n"
               f"  | fuel+1, {pat} =>\n"
               f"    if {c} then do\n{indent(body_txt, 6)}\n    else pure {pat}")
        cur["aux_defs"].append(aux)
        cur["while_done"] = True
        return f"let {pat} ← {call}fuel {pat}\n" + self.block(rest, env, fn, cur)

    def handler_pred(self, h, fn):
        if h.name is not None:
            raise TranslateError(f"{fn.name}: `except .. as name`")
        if h.type is None:
            raise TranslateError(f"{fn.name}: bare except")
        names = h.type.elts if isinstance(h.type, ast.Tuple) else [h.type]
        ks = []
        for n in names:
            if not (isinstance(n, ast.Name) and n.id in KINDS):
                raise TranslateError(f"{fn.name}: except clause for {ast.unparse(n)}")
            ks.append(KINDS[n.id])
        if len(set(ks)) != len(ks):
            raise TranslateError(f"{fn.name}: repeated exception kind")
        return "(" + " ∨ ".join(f"e = PyErr.{k}" for k in ks) + ")"

    def try_stmt(self, st, rest, env, fn, cur):
        if st.finalbody or len(st.handlers) != 1:
            raise TranslateError(f"{fn.name}: unsupported try shape")
        h = st.handlers[0]
        pred = self.handler_pred(h, fn)
        if not terminates(h.body):
            raise TranslateError(f"{fn.name}: exception handler that falls through")
        if any(isinstance(n, ast.Try) for s_ in st.body for n in ast.walk(s_)):
            raise TranslateError(f"{fn.name}: nested try")
        # --- shape B: `try: x = f(..)` + handler, then the rest of a raising function
        if fn.raises and fn.ret != OUTCOME and not st.orelse:
            if not (len(st.body) == 1 and isinstance(st.body[0], ast.Assign) and len(st.body[0].targets) == 1
                    and isinstance(st.body[0].targets[0], ast.Name) and rest):
                raise TranslateError(f"{fn.name}: unsupported try body in a raising function")
            tgt = st.body[0].targets[0].id
            pre, s, t, is_call = self.hexpr(st.body[0].value, env, fn, direct=True)
            if pre or not is_call:
                raise TranslateError(f"{fn.name}: the try body must be a single call with non-raising arguments")
            hb = self.block(h.body, dict(env), fn, cur)
            env2 = dict(env)
            env2[tgt] = t
            r = self.block(rest, env2, fn, cur)
            return (f"match {s} with\n| Except.error e =>\n  if {pred} then\n{indent(hb, 4)}\n  else throw e\n"
                    f"| Except.ok {lname(tgt)} =>\n{indent(r)}")
        # --- shapes A / C: the try statement is the rest of an Outcome function
        if fn.ret != OUTCOME or fn.raises or rest:
            raise TranslateError(f"{fn.name}: unsupported position of a try statement")
        used = loaded_names(st.body)
        pnames = [n for n in env if n in used]
        try_name = f"{fn.lean_name}_try"
        if any(a.startswith(f"def {try_name} ") or f"\ndef {try_name} " in a for a in cur["aux_defs"]):
            raise TranslateError(f"{fn.name}: more than one try statement")
        save = (self.uses_H, self.uses_cls)
        self.uses_H = self.uses_cls = False
        try:
            if not st.orelse:
                if not terminates(st.body):
                    raise TranslateError(f"{fn.name}: try body may fall through")
                rty = BOOL
                tryfn = Fn(try_name, [], BOOL, True)
                body_txt = self.block(st.body, dict(env), tryfn, cur)
                ok_pat, ok_body = "b", "Outcome.returned b"
            else:
                if any(isinstance(n, ast.Return) for s_ in st.body for n in ast.walk(s_)):
                    raise TranslateError(f"{fn.name}: return inside try with an else clause")
                live = [n for n in stored_names(st.body) if n in loaded_names(st.orelse)]
                last = st.body[-1]
                if not (len(live) == 1 and isinstance(last, ast.Assign) and len(last.targets) == 1
                        and isinstance(last.targets[0], ast.Name) and last.targets[0].id == live[0]
                        and live[0] not in loaded_names(st.body)):
                    raise TranslateError(f"{fn.name}: try/else must end by assigning the single variable the else clause uses")
                # the type of the live variable: translate the final assignment as a `return`
                body2 = list(st.body[:-1]) + [ast.Return(value=last.value)]
                rty = self.type_of_tail(body2, dict(env), cur)
                tryfn = Fn(try_name, [], rty, True)
                body_txt = self.block(body2, dict(env), tryfn, cur)
                env2 = dict(env)
                env2[live[0]] = rty
                ok_pat = lname(live[0])
            try_H, try_cls = self.uses_H, self.uses_cls
        finally:
            self.uses_H, self.uses_cls = save[0] or self.uses_H, save[1] or self.uses_cls
        if st.orelse:
            ok_body = self.block(st.orelse, env2, fn, cur)
        hb = self.block(h.body, dict(env), fn, cur)
        hd = ("(H : HashFn) " if try_H else "") + ("(cls : Suite) " if try_cls else "")
        ha = ("H " if try_H else "") + ("cls " if try_cls else "")
        pdecl = " ".join(f"({lname(n)} : {lean_type_b(env[n])})" for n in pnames)
        cur["aux_defs"].append(
            f"/- body of the `try` statement at line {st.lineno} of `{fn.name}` -/\n"
            f"def {try_name} {hd}{pdecl} : Except PyErr ({lean_type_b(rty)}) := do\n{indent(body_txt, 2)}")
        args = " ".join(lname(n) for n in pnames)
        return (f"match {try_name} {ha}{args} with\n| Except.ok {ok_pat} =>\n{indent(ok_body)}\n"
                f"| Except.error e =>\n  if {pred} then\n{indent(hb, 4)}\n  else Outcome.raised e")

    def type_of_tail(self, body, env, cur):
        """type of the value returned by the final `return <call>` of body (dry run; output discarded)"""
        class Probe(Exception):
            pass
        found = {}
        orig = self.ret_stmt

        def probe(value, env_, fn_):
            pre, s, t, _ = self.hexpr(value, env_, Fn("<probe>", [], None, True), direct=True)
            found["t"] = t
            raise Probe()
        self.ret_stmt = probe
        saved_aux = list(cur["aux_defs"])
        saved_cur = {k: v for k, v in cur.items() if k != "aux_defs"}
        save = (self.uses_H, self.uses_cls, self.fresh)
        try:
            self.block(body, env, Fn("<probe>", [], None, True), cur)
        except Probe:
            pass
        finally:
            self.ret_stmt = orig
            cur["aux_defs"][:] = saved_aux
            for k_ in [k_ for k_ in cur if k_ != "aux_defs"]:
                del cur[k_]
            cur.update(saved_cur)
            self.uses_H, self.uses_cls, self.fresh = save
        if "t" not in found:
            raise TranslateError("could not determine the type of the try body")
        return found["t"]

    # ------------------------------------------------------------------ definitions
    def check_int_guard(self, node, params):
        """does the source of this one-parameter predicate prove its argument to be a positive int?"""
        if len(params) != 1 or params[0][1] != PYARG:
            return False
        p = params[0][0]
        body = [s for s in node.body if not (isinstance(s, ast.Expr) and isinstance(s.value, ast.Constant))]
        if not (len(body) == 1 and isinstance(body[0], ast.Return) and isinstance(body[0].value, ast.BoolOp)
                and isinstance(body[0].value.op, ast.And)):
            return False
        vals = body[0].value.values
        isint = any(ast.unparse(v) == f"isinstance({p}, int)" for v in vals[:1])
        pos = any(ast.unparse(v) in (f"{p} > 0", f"0 < {p}") for v in vals[1:])
        return isint and pos

    def emit_site(self, cname, mname, raises=False, ret=None, pyarg=(), fuel=False, lean_name=None):
        ci = self.classes_info[cname]
        if mname not in ci.methods:
            raise TranslateError(f"{cname}.{mname} not found")
        node, kind, abstract = ci.methods[mname]
        if abstract:
            raise TranslateError(f"{cname}.{mname} is abstract")
        args = list(node.args.args)
        if node.args.kwonlyargs or node.args.vararg or node.args.kwarg or node.args.posonlyargs:
            raise TranslateError(f"{cname}.{mname}: unsupported parameter kinds")
        if kind == "class":
            if not args or args[0].arg != "cls" or args[0].annotation is not None:
                raise TranslateError(f"{cname}.{mname}: first parameter of a classmethod must be `cls`")
            args = args[1:]
        params = []
        for a in args:
            if a.arg in ("cls", "H", "fuel", "it", "e", "b", "st"):
                raise TranslateError(f"{cname}.{mname}: parameter name {a.arg} is reserved")
            if a.annotation is None:
                raise TranslateError(f"{cname}.{mname}: parameter {a.arg} has no annotation")
            if a.arg in pyarg:
                if ast.unparse(a.annotation) != "int":
                    raise TranslateError(f"{cname}.{mname}: dynamically typed parameter {a.arg} is not annotated int")
                params.append((a.arg, PYARG))
            else:
                params.append((a.arg, self.ann_type(a.annotation)))
        defaults = {}
        nd = len(node.args.defaults)
        if nd:
            for a, d in zip(node.args.args[len(node.args.args) - nd:], node.args.defaults):
                if isinstance(d, ast.Constant) and isinstance(d.value, bytes) and dict(params).get(a.arg) == BYTES:
                    defaults[a.arg] = (bytes_lit(d.value), BYTES)
                else:
                    raise TranslateError(f"{cname}.{mname}: unsupported default value for {a.arg}")
        declared = self.ann_type(node.returns)
        rty = ret or declared
        if rty == OUTCOME and declared != BOOL:
            raise TranslateError(f"{cname}.{mname}: Outcome function not declared bool")
        multi = len(self.definers(mname)) > 1
        lean = lean_name or (f"{cname}.{mname}" if multi else mname)
        fn = Fn(f"{cname}.{mname}", params, rty, raises, None, lean_name=lean)
        env = {n: t for n, t in params}
        cur = {"aux_defs": [], "outline_loops": False, "fuel": fuel}
        self.fresh = 0
        self.cur_class = cname
        self.cur_suites = [s for s in self.suites if cname in self.mro(s)]
        if not self.cur_suites:
            raise TranslateError(f"{cname}: no leaf class")
        self.cls_expr = self.suites[cname] if cname in self.suites else "cls"
        self.uses_H = self.uses_cls = False
        self.narrowed = set()
        try:
            if kind == "static" and any(isinstance(n, ast.Name) and n.id == "cls" for n in ast.walk(node)):
                raise TranslateError(f"{cname}.{mname}: `cls` in a static method")
            body = self.block(node.body, env, fn, cur)
            uses_H, uses_cls = self.uses_H, self.uses_cls
        finally:
            self.cur_class, self.cls_expr, self.cur_suites = None, None, []
            self.narrowed = set()
        self.sites[(cname, mname)] = dict(lean=lean, params=params, ret=rty, raises=raises, uses_H=uses_H,
                                          takes_cls=uses_cls, defaults=defaults, fuel=fuel)
        if fuel and not cur.get("while_done"):
            raise TranslateError(f"{cname}.{mname}: fuel parameter but no while loop")
        if self.check_int_guard(node, params):
            self.int_guards[(cname, mname)] = 0
        seg = "\n".join(self.lines[node.lineno - 1: node.end_lineno])
        sha = hashlib.sha256(seg.encode()).hexdigest()[:16]
        hdr = f"/- {self.rel}:{node.lineno}-{node.end_lineno} `{cname}.{mname}` ({kind} method) sha256:{sha} -/\n"
        pdecl = " ".join((["(H : HashFn)"] if uses_H else []) + (["(fuel : Nat)"] if fuel else [])
                         + (["(cls : Suite)"] if uses_cls else [])
                         + [f"({lname(n)} : {lean_type_b(t)})" for n, t in params])
        aux = "".join(a + "\n\n" for a in cur["aux_defs"])
        full = f"Except PyErr ({lean_type_b(rty)})" if raises else lean_type_b(rty)
        do = " do" if raises else ""
        return f"{hdr}{aux}def {lean} {pdecl} : {full} :={do}\n{indent(body, 2)}\n"

    def emit_dispatcher(self, mname):
        ds = self.definers(mname)
        if len(ds) < 2:
            raise TranslateError(f"{mname} has a single definition: no dispatcher")
        recs = {}
        for s in self.suites:
            c = self.lookup(s, mname)
            r = self.sites.get((c, mname))
            if r is None:
                raise TranslateError(f"{c}.{mname} has not been translated")
            if r["fuel"]:
                raise TranslateError("dispatcher over a fuelled method")
            recs[s] = (c, r)
        first = next(iter(recs.values()))[1]
        for c, r in recs.values():
            if r["params"] != first["params"] or r["ret"] != first["ret"]:
                raise TranslateError(f"{mname}: the definitions disagree on the signature")
        raises = any(r["raises"] for _, r in recs.values())
        uses_H = any(r["uses_H"] for _, r in recs.values())
        params, rty = first["params"], first["ret"]
        arms = []
        for s, ctor in self.suites.items():
            c, r = recs[s]
            txt = " ".join([r["lean"]] + (["H"] if r["uses_H"] else []) + ([ctor] if r["takes_cls"] else [])
                           + [lname(n) for n, _ in params])
            if raises and not r["raises"]:
                txt = f"pure ({txt})"
            arms.append(f"  | {ctor} => {txt}  -- {s} uses {c}.{mname}\n")
        self.dispatch[mname] = dict(lean=mname, params=params, ret=rty, raises=raises, uses_H=uses_H)
        pdecl = " ".join((["(H : HashFn)"] if uses_H else []) + ["(cls : Suite)"]
                         + [f"({lname(n)} : {lean_type_b(t)})" for n, t in params])
        full = f"Except PyErr ({lean_type_b(rty)})" if raises else lean_type_b(rty)
        return (f"/- `cls.{mname}(..)`: dispatch over the leaf classes by the method resolution order in {self.rel} -/\n"
                f"def {mname} {pdecl} : {full} :=\n  match cls with\n" + "".join(arms))
