"""
gen_fieldsinv — the `Gen/ExtraFieldsInv.lean` output: the REFERENCE-class functions of the field layer that work on
lists mixing Python ints and `FQ` objects (the kind of an entry changes from round to round):

    py_ecc/utils.py                    deg (on such lists), poly_rounded_div
    py_ecc/fields/field_elements.py    FQP.inv, FQP.__div__ / FQP.__truediv__ with an FQP operand

translated by `py2lean_fieldsinv.FieldsInvTranslator` (dynamic value type `PyNum`, operator tables generated from the
translated class FQ, explicit `floatDivision` outcome for `<int> / <int>`) and proved equal to the hand-written model
(`Fqp.polyRoundedDiv .ref`, `Fqp.inv`, `Fqp.div` of `Model/Fqp.lean`) in `lean/PyEcc/Props/TieFieldsInv.lean`.

As in `gen_fields`, everything in this file that is not derived from the Python source is a symbol table: which
operand kinds a function is translated for, the fuel of a `while` loop, which local lists are represented dynamically
from their first assignment on.
"""
from py2lean import INT, NAT, TranslateError
from py2lean_extra import LIST, Ext, check_origin
from py2lean_fields import FQPT
import gen_fields
from gen_fields import HEADER, REF, UTILS, load
from py2lean_fieldsinv import NUM, PRELUDE, FieldsInvTranslator

DOC = (
    "/- The REFERENCE `FQP.inv` (extended Euclid on coefficient lists) and `poly_rounded_div` work on Python lists whose\n"
    "   entries are ints or `FQ` objects, and the kind of an entry changes from round to round (`new[i + j] -= low[i] * int(r[j])`\n"
    "   turns an int entry into an FQ object as soon as `low[i]` is one).  Such an entry is a `PyNum`; the operators on them\n"
    "   (`PyNum.sub` ..) are the table of Python's operator dispatch over the kinds of the two operands, with the generated\n"
    "   methods of class FQ (`Gen/ExtraFieldsFq.lean`) as entries.  Where Python would divide two ints with `/` (float\n"
    "   division) the outcome is `DynErr.floatDivision`.  All FQ objects of one call are instances of one class (they stem\n"
    "   from `self.coeffs`, i.e. `self.FQP_corresponding_FQ_class`), whose modulus is the parameter `field_modulus`.\n"
    "   Lists that only ever hold ints (`lm`, `hm`, `nm`, `o`, `r`) are lists of `Int`, as the source implies. -/\n")


def gen_fields_inv(repo, consts):
    out = [HEADER, "import PyEcc.Gen.ExtraFieldsPoly\nset_option linter.unusedVariables false\n"]
    # the translator of the reference module with the classes FQ and FQP registered (text discarded: it is Gen/ExtraFieldsMul)
    _, _, tr = gen_fields.gen_fqp_class(repo, REF, False, "mul")
    tr = FieldsInvTranslator.adopt(tr)
    check_origin(tr.tree, {"poly_rounded_div": "from:py_ecc.utils", "deg": "from:py_ecc.utils"}, REF)
    # --- py_ecc/utils.py: deg and poly_rounded_div on sequences of int-or-FQ values
    utree, ulines = load(repo, UTILS)
    check_origin(utree, {"deg": "def", "poly_rounded_div": "def", "cast": "from:typing"}, UTILS)
    # `deg` of a sequence of ints: the function generated in Gen/ExtraFieldsPoly.lean (tied to the model's `deg` there)
    tr.externs["deg"] = Ext("PyEcc.Gen.ExtraFieldsPoly.Utils.deg", [("p", LIST(INT))], NAT)
    ref_tree, ref_lines, ref_rel = tr.tree, tr.lines, tr.rel
    tr.tree, tr.lines, tr.rel = utree, ulines, UTILS
    fns = []
    try:
        # `d = len(p) - 1`, `d -= 1`, the fuel: as for `deg` on ints (gen_fields.gen_fields_poly)
        fns.append(tr.function_dyn("deg", "deg_dyn", {"p": LIST(NUM)}, ret=NAT, raises=False, fuels=["d"],
                                   nonneg=["len(p) - 1", "d - 1"]))
        fns.append(tr.function_dyn("poly_rounded_div", "poly_rounded_div", {"a": LIST(NUM), "b": LIST(NUM)},
                                   ret=LIST(INT), raises=True))
    finally:
        tr.tree, tr.lines, tr.rel = ref_tree, ref_lines, ref_rel
    # --- reference class FQP
    # `while deg(low)`: the model's bound on the number of rounds (as for the optimized class);
    # `high` starts as a list of ints (`modulus_coeffs + (1,)`) and is `low` (FQ entries) from the second round on
    fns.append(tr.method_dyn("FQP", "inv", "FQP.inv", {}, dyn=["high"], fuels=["4 * self.degree + 4"]))
    fns.append(tr.method_dyn("FQP", "__div__", "FQP.div_fqp", {"other": FQPT}))
    fns.append(tr.method_dyn("FQP", "__truediv__", "FQP.truediv_fqp", {"other": FQPT}))
    if "truediv" not in tr.used_ops:
        raise TranslateError("no `/` on int-or-FQ values was met: the dynamic translation is pointless")
    out.append("\nnamespace PyEcc.Gen.ExtraFieldsInv.Ref\n"
               "open PyEcc PyEcc.Gen.ExtraFieldsFq.Ref PyEcc.Gen.ExtraFieldsFqp.Ref PyEcc.Gen.ExtraFieldsMul.Ref\n"
               + DOC + "\n")
    out.append(PRELUDE + "\n")
    out.append(tr.pynum_defs() + "\n")
    out.append("\n".join(fns))
    out.append("\nend PyEcc.Gen.ExtraFieldsInv.Ref\n")
    return "".join(out)


def jobs(repo, get_consts):
    """generic in the modulus: no dumped module constants needed"""
    return [("ExtraFieldsInv", lambda: gen_fields_inv(repo, None))]
