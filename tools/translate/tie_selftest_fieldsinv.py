#!/usr/bin/env python3
"""
Mutation self-test of the tie theorems of lean/PyEcc/Props/TieFieldsInv.lean (reference `poly_rounded_div`, `deg` on
lists of ints and FQ objects, reference `FQP.inv`, the FQP branch of reference `FQP.__div__` / `__truediv__`).

Same procedure as tie_selftest_fields.py: for every entry of MUTATIONS copy the repository snapshot, replace ONE
occurrence of a token inside the named function / method, regenerate the field-layer Gen files from the mutated tree
(`gen_fields.jobs` + `gen_fieldsinv.jobs`) and check that `lake build PyEcc.Props.TieFieldsInv` now FAILS (translator
refusal, or the generated file / a tie theorem / a pinned example no longer compiles).  Finally regenerate from the
pristine tree and check that the build succeeds again.

  tie_selftest_fieldsinv.py --repo <snapshot of the repository> --lean /path/to/lean [--only REGEX] [--work DIR]

(The repository is never edited: pass a `git archive HEAD` snapshot; the mutants are made in copies under --work.)
"""
import argparse
import json
import os
import re
import shutil
import sys
import time

HERE = os.path.dirname(os.path.abspath(__file__))
sys.path.insert(0, HERE)
from tie_selftest import run  # noqa: E402
from tie_selftest_fields import mutate  # noqa: E402
import gen_fields  # noqa: E402
import gen_fieldsinv  # noqa: E402
from gen import write_if_changed  # noqa: E402
from py2lean import TranslateError  # noqa: E402


def regenerate(repo, gen_out):
    changed, errors = [], []
    for name, job in gen_fields.jobs(repo, lambda: None) + gen_fieldsinv.jobs(repo, lambda: None):
        try:
            if write_if_changed(os.path.join(gen_out, name + ".lean"), job()):
                changed.append(name)
        except (TranslateError, SyntaxError, KeyError) as e:
            errors.append((name, f"{type(e).__name__}: {e}"))
    return (3 if errors else 0), {"changed": changed, "errors": errors}


U = "py_ecc/utils.py"
R = "py_ecc/fields/field_elements.py"
TARGETS = ["PyEcc.Props.TieFieldsInv"]

# (id, file, function or Class.method, old text, new text, occurrence index within the function's source)
MUTATIONS = [
    # ---- utils.poly_rounded_div
    ("prd-range", U, "poly_rounded_div", "dega - degb", "degb - dega", 0),
    ("prd-lead", U, "poly_rounded_div", "temp[degb + i]", "temp[dega + i]", 0),
    ("prd-divisor", U, "poly_rounded_div", "/ b[degb]", "/ b[dega]", 0),
    ("prd-divop", U, "poly_rounded_div", "temp[degb + i] / b[degb]", "temp[degb + i] * b[degb]", 0),
    ("prd-acc", U, "poly_rounded_div", "o[i] += int(", "o[i] -= int(", 0),
    ("prd-inner", U, "poly_rounded_div", "range(degb + 1)", "range(degb)", 0),
    ("prd-sign", U, "poly_rounded_div", "temp[c + i] -= o[c]", "temp[c + i] += o[c]", 0),
    ("prd-src", U, "poly_rounded_div", "temp[c + i] -= o[c]", "temp[c + i] -= o[i]", 0),
    ("prd-take", U, "poly_rounded_div", "o[: deg(o) + 1]", "o[: deg(o)]", 0),
    ("prd-init", U, "poly_rounded_div", "o = [0 for x in a]", "o = [1 for x in a]", 0),
    ("prd-temp", U, "poly_rounded_div", "temp = [x for x in a]", "temp = [x for x in b]", 0),
    ("prd-degb", U, "poly_rounded_div", "degb = deg(b)", "degb = deg(a)", 0),
    # ---- utils.deg (translated a second time, for lists of ints and FQ objects)
    ("deg-len", U, "deg", "len(p) - 1", "len(p) - 2", 0),
    ("deg-or", U, "deg", "p[d] == 0 and d", "p[d] == 0 or d", 0),
    ("deg-cmp", U, "deg", "p[d] == 0", "p[d] == 1", 0),
    ("deg-step", U, "deg", "d -= 1", "d -= 2", 0),
    ("deg-ret", U, "deg", "return d", "return d + 1", 0),
    # ---- reference FQP.inv
    ("inv-lm", R, "FQP.inv", "[1] + [0] * self.degree", "[0] + [0] * self.degree", 0),
    ("inv-hm", R, "FQP.inv", "[0] * (self.degree + 1)", "[1] * (self.degree + 1)", 0),
    ("inv-low", R, "FQP.inv", "self.coeffs + (0,)", "self.coeffs + (1,)", 0),
    ("inv-high", R, "FQP.inv", "self.modulus_coeffs + (1,)", "self.modulus_coeffs + (0,)", 0),
    ("inv-guard", R, "FQP.inv", "while deg(low)", "while deg(high)", 0),
    ("inv-divargs", R, "FQP.inv", "poly_rounded_div(high, low)", "poly_rounded_div(low, high)", 0),
    ("inv-pad", R, "FQP.inv", "r += [0] * (self.degree + 1 - len(r))", "r += [0] * (self.degree - len(r))", 0),
    ("inv-alias", R, "FQP.inv", "nm = [x for x in hm]", "nm = hm", 0),
    ("inv-newinit", R, "FQP.inv", "new = [x for x in high]", "new = [x for x in low]", 0),
    ("inv-lencheck", R, "FQP.inv", "if len(lm) != self.degree + 1", "if len(lm) != self.degree", 0),
    ("inv-lowcheck", R, "FQP.inv", "elif len(low) != self.degree + 1", "elif len(low) == self.degree + 1", 0),
    ("inv-lowexc", R, "FQP.inv", 'raise Exception(f"Length of low', 'raise ValueError(f"Length of low', 0),
    ("inv-nmsign", R, "FQP.inv", "nm[i + j] -= lm[i] * int(r[j])", "nm[i + j] += lm[i] * int(r[j])", 0),
    ("inv-newsign", R, "FQP.inv", "new[i + j] -= low[i] * int(r[j])", "new[i + j] += low[i] * int(r[j])", 0),
    ("inv-newsrc", R, "FQP.inv", "new[i + j] -= low[i] * int(r[j])", "new[i + j] -= lm[i] * int(r[j])", 0),
    ("inv-newidx", R, "FQP.inv", "new[i + j] -= low[i] * int(r[j])", "new[i + j] -= low[j] * int(r[i])", 0),
    ("inv-irange", R, "FQP.inv", "for i in range(self.degree + 1)", "for i in range(self.degree)", 0),
    ("inv-jrange", R, "FQP.inv", "range(self.degree + 1 - i)", "range(self.degree + 1)", 0),
    ("inv-rotate", R, "FQP.inv", "lm, low, hm, high = nm, new, lm, low", "lm, low, hm, high = nm, new, hm, high", 0),
    ("inv-take", R, "FQP.inv", "lm[: self.degree]", "lm[: self.degree + 1]", 0),
    ("inv-low0", R, "FQP.inv", "int(low[0])", "int(low[1])", 0),
    ("inv-finalop", R, "FQP.inv", "lm[: self.degree]) / int(low[0])", "lm[: self.degree]) * int(low[0])", 0),
    # ---- reference FQP.__div__ (FQP operand) / __truediv__
    ("div-swap", R, "FQP.__div__", "self * other.inv()", "other * self.inv()", 0),
    ("div-noinv", R, "FQP.__div__", "self * other.inv()", "self * other", 0),
    ("div-selfinv", R, "FQP.__div__", "self * other.inv()", "self * self.inv()", 0),
    ("div-op", R, "FQP.__div__", "self * other.inv()", "self + other.inv()", 0),
    ("truediv-deleg", R, "FQP.__truediv__", "self.__div__(other)", "self.__mul__(other)", 0),
    ("truediv-arg", R, "FQP.__truediv__", "self.__div__(other)", "self.__div__(self)", 0),
    ("truediv-recv", R, "FQP.__truediv__", "self.__div__(other)", "other.__div__(self)", 0),
    # ---- the methods of class FQ that the generated operator tables (`PyNum.sub` ..) refer to
    ("fq-rsub-order", R, "FQ.__rsub__", "(on - self.n)", "(self.n - on)", 0),
    ("fq-rtruediv-deleg", R, "FQ.__rtruediv__", "self.__rdiv__(other)", "self.__div__(other)", 0),
    ("fq-int-off", R, "FQ.__int__", "return self.n", "return self.n + 1", 0),
    ("fq-eq-int", R, "FQ.__eq__", "self.n == other\n", "self.n == other + 1\n", 0),
    ("fq-mul-onint", R, "FQ.__mul__", "            on = other\n", "            on = other * 2\n", 0),
]


def main():
    ap = argparse.ArgumentParser()
    ap.add_argument("--repo", required=True, help="a snapshot of the repository (never modified)")
    ap.add_argument("--lean", required=True)
    ap.add_argument("--work", default="/tmp/tie_selftest_fieldsinv")
    ap.add_argument("--only", default=None, help="regex on mutation ids")
    ap.add_argument("--skip-missing", action="store_true",
                    help="skip mutations whose token does not occur in --repo (a snapshot with a refactoring applied)")
    a = ap.parse_args()
    gen_dir = os.path.join(a.lean, "PyEcc", "Gen")
    env = dict(os.environ)
    env["PATH"] = "/opt/veriftools/lean/bin:" + env["PATH"]
    results = []
    muts = [m for m in MUTATIONS if a.only is None or re.search(a.only, m[0])]
    skipped = []
    # the generated files of the (possibly refactored) tree under test are the baseline
    rc0, info0 = regenerate(a.repo, gen_dir)
    if rc0 != 0:
        raise SystemExit(f"the tree under test does not regenerate: {info0}")
    for mid, rel, fn, old, new, occ in muts:
        repo_mut = os.path.join(a.work, "repo_mut")
        shutil.rmtree(repo_mut, ignore_errors=True)
        shutil.copytree(a.repo, repo_mut, ignore=shutil.ignore_patterns(".git", "__pycache__", ".tox", "*.pyc"))
        try:
            mutate(repo_mut, rel, fn, old, new, occ)
        except SystemExit as ex:
            if not a.skip_missing:
                raise
            skipped.append(mid)
            print(f"{mid:18s} skipped: {ex}", flush=True)
            continue
        gen_out = os.path.join(a.work, "Gen")
        shutil.rmtree(gen_out, ignore_errors=True)
        shutil.copytree(gen_dir, gen_out)
        rc, info = regenerate(repo_mut, gen_out)
        changed = [c for c in info["changed"] if c.startswith("ExtraFields")]
        verdict, detail = None, ""
        if info["errors"]:
            verdict = "caught: translator refused"
            detail = "; ".join(f"{e[0]}: {e[1][:160]}" for e in info["errors"])
        elif not changed:
            verdict = "NOT CAUGHT: generated files unchanged"
        else:
            saved = {}
            for c in changed:
                dst = os.path.join(gen_dir, c + ".lean")
                saved[dst] = open(dst).read() if os.path.exists(dst) else None
                shutil.copy(os.path.join(gen_out, c + ".lean"), dst)
            t0 = time.time()
            r = run(["lake", "build"] + TARGETS, cwd=a.lean, env=env)
            dt = time.time() - t0
            for dst, txt in saved.items():
                if txt is None:
                    os.remove(dst)
                else:
                    open(dst, "w").write(txt)
            if r.returncode != 0:
                errs = [ln for ln in (r.stdout + r.stderr).splitlines() if "error" in ln]
                verdict = f"caught: build failed ({dt:.0f}s; changed {','.join(changed)})"
                detail = " | ".join(errs[:3])[:300]
            else:
                verdict = f"NOT CAUGHT: build succeeded ({dt:.0f}s)"
        results.append((mid, fn, old, new, verdict, detail))
        print(f"{mid:18s} {fn:18s} {old!r} -> {new!r}: {verdict}\n    {detail}", flush=True)
    r = run(["lake", "build"] + TARGETS, cwd=a.lean, env=env)
    print("pristine rebuild:", "ok" if r.returncode == 0 else "FAILED\n" + r.stdout[-2000:])
    bad = [x for x in results if x[4].startswith("NOT")]
    print(json.dumps({"mutations": len(results), "caught": len(results) - len(bad), "not_caught": [x[0] for x in bad],
                      "skipped": len(skipped)}))
    return 1 if bad or r.returncode != 0 else 0


if __name__ == "__main__":
    sys.exit(main())
