#!/usr/bin/env python3
"""
Mutation self-test of the tie theorems of the byte/hash layer (lean/PyEcc/Props/TieHash*.lean).

Same procedure as tie_selftest.py: for every entry of MUTATIONS copy the repository, replace ONE occurrence of a token inside
the named function, regenerate Gen/*.lean from the mutated tree, and check that `lake build PyEcc.Props.TieHash ...` now FAILS
(either the translator refuses the function, or the generated file / the tie theorem no longer compiles).  Finally the pristine
files are restored and the build must succeed again.

  tie_selftest_hash.py --repo /repo --lean /path/to/lean [--only REGEX] [--work /tmp/tie_selftest_hash] [--set original|refactored]

`--set refactored` uses MUTATIONS_REFACTORED instead: one-token mutations of the REFACTORED spellings of `hkdf_expand`,
`expand_message_xmd`, `hash_to_field_FQ2` and `modular_squareroot_in_FQ2` (the refactorings the tie proofs tolerate); `--repo` must
then be a tree with those refactorings applied and `--lean` a project whose Gen/ files were generated from it.
"""
import argparse
import json
import os
import re
import shutil
import sys
import time

HERE = os.path.dirname(os.path.abspath(__file__))
sys.path.insert(0, HERE)
from tie_selftest import mutate, regenerate, run  # noqa: E402

TARGETS = ["PyEcc.Props.TieHash", "PyEcc.Props.TieHashSecp", "PyEcc.Props.TieHashCurve", "PyEcc.Props.TieHashIso",
           "PyEcc.Props.TieHashCodec"]

HASH = "py_ecc/bls/hash.py"
H2C = "py_ecc/bls/hash_to_curve.py"
SECP = "py_ecc/secp256k1/secp256k1.py"
OBLS_C = "py_ecc/optimized_bls12_381/optimized_curve.py"
OBLS_P = "py_ecc/optimized_bls12_381/optimized_pairing.py"
OBN_C = "py_ecc/optimized_bn128/optimized_curve.py"
OBN_P = "py_ecc/optimized_bn128/optimized_pairing.py"
RBLS_C = "py_ecc/bls12_381/bls12_381_curve.py"
RBLS_P = "py_ecc/bls12_381/bls12_381_pairing.py"
RBN_C = "py_ecc/bn128/bn128_curve.py"
RBN_P = "py_ecc/bn128/bn128_pairing.py"
SWU = "py_ecc/optimized_bls12_381/optimized_swu.py"
PC = "py_ecc/bls/point_compression.py"

# (id, file, function, old text, new text, occurrence index within the function's source)
MUTATIONS = [
    # --- hash.py
    ("extract-args", HASH, "hkdf_extract", "hmac.new(salt, ikm,", "hmac.new(ikm, salt,", 0),
    ("extract-hash", HASH, "hkdf_extract", "hashlib.sha256", "hashlib.sha512", 0),
    ("expand-32", HASH, "hkdf_expand", "length / 32", "length / 64", 0),
    ("expand-ctr", HASH, "hkdf_expand", "bytes([i + 1])", "bytes([i])", 0),
    ("expand-order", HASH, "hkdf_expand", "previous + info +", "info + previous +", 0),
    ("expand-key", HASH, "hkdf_expand", "hmac.new(prk, text,", "hmac.new(text, prk,", 0),
    ("expand-slice", HASH, "hkdf_expand", "okm[:length]", "okm[:n]", 0),
    ("expand-range", HASH, "hkdf_expand", "range(0, n)", "range(1, n)", 0),
    ("expand-noext", HASH, "hkdf_expand", "        okm.extend(previous)\n", "        okm = previous\n", 0),
    ("i2osp-order", HASH, "i2osp", 'byteorder="big"', 'byteorder="little"', 0),
    ("i2osp-signed", HASH, "i2osp", "signed=False", "signed=True", 0),
    ("i2osp-args", HASH, "i2osp", "x.to_bytes(xlen,", "xlen.to_bytes(x,", 0),
    ("os2ip-order", HASH, "os2ip", 'byteorder="big"', 'byteorder="little"', 0),
    ("os2ip-signed", HASH, "os2ip", "signed=False", "signed=True", 0),
    ("sha256-twice", HASH, "sha256", "hashlib.sha256(x).digest()", "hashlib.sha256(hashlib.sha256(x).digest()).digest()", 0),
    ("sha256-id", HASH, "sha256", "return hashlib.sha256(x).digest()", "return x", 0),
    ("xor-and", HASH, "xor", "_a ^ _b", "_a & _b", 0),
    ("xor-self", HASH, "xor", "_a ^ _b", "_a ^ _a", 0),
    ("xor-zip", HASH, "xor", "zip(a, b)", "zip(a, a)", 0),
    ("xmd-dstlen", HASH, "expand_message_xmd", "len(DST) > 255", "len(DST) > 256", 0),
    ("xmd-ell", HASH, "expand_message_xmd", "ell > 255", "ell >= 255", 0),
    ("xmd-exc", HASH, "expand_message_xmd", 'ValueError("invalid len', 'TypeError("invalid len', 0),
    ("xmd-sizes", HASH, "expand_message_xmd", "len_in_bytes / b_in_bytes", "len_in_bytes / r_in_bytes", 0),
    ("xmd-dstprime", HASH, "expand_message_xmd", "DST + i2osp(", "i2osp(", 0),
    ("xmd-lib", HASH, "expand_message_xmd", "i2osp(len_in_bytes, 2)", "i2osp(len_in_bytes, 4)", 0),
    ("xmd-b0", HASH, "expand_message_xmd", 'l_i_b_str + b"\\x00" + DST_prime', 'l_i_b_str + b"\\x01" + DST_prime', 0),
    ("xmd-b1", HASH, "expand_message_xmd", 'b_0 + b"\\x01" + DST_prime', 'b_0 + b"\\x01"', 0),
    ("xmd-idx", HASH, "expand_message_xmd", "b[i - 2]", "b[i - 1]", 0),
    ("xmd-idx0", HASH, "expand_message_xmd", "b[i - 2]", "b[0]", 0),
    ("xmd-range", HASH, "expand_message_xmd", "range(2, ell + 1)", "range(2, ell)", 0),
    ("xmd-noxor", HASH, "expand_message_xmd", "xor(b_0, b[i - 2])", "b[i - 2]", 0),
    ("xmd-slice", HASH, "expand_message_xmd", "pseudo_random_bytes[:len_in_bytes]", "pseudo_random_bytes", 0),
    ("xmd-zpad", HASH, "expand_message_xmd", 'b"\\x00" * r_in_bytes', 'b"\\x00" * b_in_bytes', 0),
    # --- hash_to_curve.py (field half)
    ("h2f2-M", H2C, "hash_to_field_FQ2", "M = 2", "M = 3", 0),
    ("h2f2-off", H2C, "hash_to_field_FQ2", "(j + i * M)", "(i + j * M)", 0),
    ("h2f2-len", H2C, "hash_to_field_FQ2", "count * M * HASH_TO_FIELD_L", "count * HASH_TO_FIELD_L", 0),
    # (dropping `% field_modulus` here is an EQUIVALENT mutant: FQ2(..) reduces its coefficients anyway, and the tie
    #  theorem indeed still holds for it; the modulus is mutated instead)
    ("h2f2-mod", H2C, "hash_to_field_FQ2", "os2ip(tv) % field_modulus", "os2ip(tv) % HASH_TO_FIELD_L", 0),
    ("h2f2-inner", H2C, "hash_to_field_FQ2", "range(0, M)", "range(0, 1)", 0),
    ("h2f2-args", H2C, "hash_to_field_FQ2", "expand_message_xmd(message, DST,", "expand_message_xmd(DST, message,", 0),
    ("h2f2-slice", H2C, "hash_to_field_FQ2", "elem_offset + HASH_TO_FIELD_L", "elem_offset + HASH_TO_FIELD_L - 1", 0),
    ("h2f-off", H2C, "hash_to_field_FQ", "HASH_TO_FIELD_L * (i * M)", "HASH_TO_FIELD_L * (i + M)", 0),
    ("h2f-range", H2C, "hash_to_field_FQ", "range(0, count)", "range(1, count)", 0),
    ("h2f-mod", H2C, "hash_to_field_FQ", "FQ(os2ip(tv) % field_modulus)", "FQ(os2ip(tv) % HASH_TO_FIELD_L)", 0),
    # --- secp256k1
    ("b2i-shift", SECP, "bytes_to_int", "o << 8", "o << 7", 0),
    ("b2i-init", SECP, "bytes_to_int", "o = 0", "o = 1", 0),
    ("b2i-add", SECP, "bytes_to_int", "+ safe_ord(b)", "- safe_ord(b)", 0),
    ("b2i-safeord", SECP, "safe_ord", "return value", "return value + 1", 0),
    ("detk-v", SECP, "deterministic_generate_k", 'b"\\x01" * 32', 'b"\\x01" * 31', 0),
    ("detk-sep", SECP, "deterministic_generate_k", 'v + b"\\x01" + priv', 'v + b"\\x02" + priv', 0),
    ("detk-order", SECP, "deterministic_generate_k", "priv + msghash", "msghash + priv", 0),
    ("detk-round", SECP, "deterministic_generate_k",
     "    v = hmac.new(k, v, hashlib.sha256).digest()\n    return", "    return", 0),
    ("detk-key", SECP, "deterministic_generate_k", "return bytes_to_int(hmac.new(k, v,", "return bytes_to_int(hmac.new(v, k,", 0),
    # --- twist x4
    ("twist-optbls-pos", OBLS_C, "twist", "[0] * 4)", "[0] * 3 + [0])", 0),
    ("twist-optbls-sub", OBLS_C, "twist", "_x.coeffs[0] - _x.coeffs[1]", "_x.coeffs[0] + _x.coeffs[1]", 0),
    ("twist-optbls-z", OBLS_C, "twist", "[0] * 3 + [zcoeffs[0]]", "[0] * 2 + [zcoeffs[0]] + [0]", 0),
    ("twist-optbls-ret", OBLS_C, "twist", "return (nx, ny, nz)", "return (ny, nx, nz)", 0),
    ("twist-optbn-9", OBN_C, "twist", "_y.coeffs[1] * 9", "_y.coeffs[1] * 8", 0),
    ("twist-optbn-w", OBN_C, "twist", "ny * w**3", "ny * w**2", 0),
    ("twist-optbn-nz", OBN_C, "twist", "ny * w**3, nz)", "ny * w**3, nz * w)", 0),
    ("twist-refbls-div", RBLS_C, "twist", "nx / w**2", "nx * w**2", 0),
    ("twist-refbls-idx", RBLS_C, "twist", "_x.coeffs[0] - _x.coeffs[1], _x.coeffs[1]", "_x.coeffs[0] - _x.coeffs[1], _x.coeffs[0]", 0),
    ("twist-refbls-none", RBLS_C, "twist", "    if pt is None:\n        return None\n", "", 0),
    ("twist-refbn-9", RBN_C, "twist", "_x.coeffs[1] * 9", "_x.coeffs[1] * 10", 0),
    ("twist-refbn-int", RBN_C, "twist", "[int(xcoeffs[1])]", "[int(xcoeffs[0])]", 0),
    ("twist-refbn-w3", RBN_C, "twist", "ny * w**3", "ny * w**4", 0),
    # --- cast_point_to_fq12 x4
    ("cast-optbls-11", OBLS_P, "cast_point_to_fq12", "FQ12([x.n] + [0] * 11)", "FQ12([0] + [x.n] + [0] * 10)", 0),
    ("cast-optbls-y", OBLS_P, "cast_point_to_fq12", "[y.n]", "[x.n]", 0),
    ("cast-optbn-z", OBN_P, "cast_point_to_fq12", "[z.n]", "[z.n + 1]", 0),
    ("cast-optbn-swap", OBN_P, "cast_point_to_fq12", "x, y, z = pt", "y, x, z = pt", 0),
    ("cast-refbls-y", RBLS_P, "cast_point_to_fq12", "FQ12([y.n] + [0] * 11)", "FQ12([y.n * 2] + [0] * 11)", 0),
    ("cast-refbls-none", RBLS_P, "cast_point_to_fq12", "return None", "return (FQ12.zero(), FQ12.zero())", 0),
    ("cast-refbn-x", RBN_P, "cast_point_to_fq12", "[x.n]", "[y.n]", 0),
    ("cast-refbn-ret", RBN_P, "cast_point_to_fq12", "return fq12_point", "return None", 0),
    # --- exp_by_p
    ("expbyp-zip", OBLS_P, "exp_by_p", "zip(exptable, x.coeffs)", "zip(exptable[1:], x.coeffs)", 0),
    ("expbyp-start", OBLS_P, "exp_by_p", "FQ12.zero()", "FQ12.one()", 0),
    ("expbyp-mul", OBLS_P, "exp_by_p", "table_entry * int(coeff)", "table_entry * int(coeff + 1)", 0),
    # --- iso_map_G1 / iso_map_G2
    ("iso1-horner", SWU, "iso_map_G1", "mapped_values[i] * x + z_powers[j] * k_i_j", "mapped_values[i] * x + k_i_j", 0),
    ("iso1-last", SWU, "iso_map_G1", "k_i[-1:][0]", "k_i[0]", 0),
    ("iso1-zpow", SWU, "iso_map_G1", "z**7,", "z**8,", 0),
    ("iso1-den", SWU, "iso_map_G1", "mapped_values[1] = mapped_values[1] * z", "mapped_values[1] = mapped_values[1] * y", 0),
    ("iso1-ret", SWU, "iso_map_G1", "return (x_G1, y_G1, z_G1)", "return (y_G1, x_G1, z_G1)", 0),
    ("iso1-zG1", SWU, "iso_map_G1", "z_G1 = mapped_values[1] * mapped_values[3]", "z_G1 = mapped_values[0] * mapped_values[3]", 0),
    ("iso2-horner", SWU, "iso_map_G2", "mapped_values[i] * x + z_powers[j] * k_i_j", "mapped_values[i] * z + z_powers[j] * k_i_j", 0),
    ("iso2-rev", SWU, "iso_map_G2", "enumerate(reversed(k_i[:-1]))", "enumerate(k_i[:-1])", 0),
    ("iso2-zpow", SWU, "iso_map_G2", "z**3", "z**2", 0),
    ("iso2-y", SWU, "iso_map_G2", "mapped_values[2] = mapped_values[2] * y", "mapped_values[2] = mapped_values[2] * z", 0),
    ("iso2-ret", SWU, "iso_map_G2", "mapped_values[0] * mapped_values[3]", "mapped_values[0] * mapped_values[2]", 0),
    ("iso2-len", SWU, "iso_map_G2", "mapped_values = [FQ2.zero(), FQ2.zero(), FQ2.zero(), FQ2.zero()]",
     "mapped_values = [FQ2.zero(), FQ2.zero(), FQ2.zero()]", 0),
    # --- modular_squareroot_in_FQ2
    ("msqrt-exp", PC, "modular_squareroot_in_FQ2", "(FQ2_ORDER + 8) // 16", "(FQ2_ORDER + 8) // 8", 0),
    ("msqrt-step", PC, "modular_squareroot_in_FQ2", "EIGHTH_ROOTS_OF_UNITY[::2]", "EIGHTH_ROOTS_OF_UNITY", 0),
    ("msqrt-half", PC, "modular_squareroot_in_FQ2", "EIGHTH_ROOTS_OF_UNITY.index(check) // 2", "EIGHTH_ROOTS_OF_UNITY.index(check)", 0),
    ("msqrt-neg", PC, "modular_squareroot_in_FQ2", "x2 = -x1", "x2 = x1", 0),
    ("msqrt-cmp", PC, "modular_squareroot_in_FQ2", "x1_im > x2_im or", "x1_im >= x2_im or", 0),
    ("msqrt-swap", PC, "modular_squareroot_in_FQ2", "x1_re, x1_im = x1.coeffs", "x1_im, x1_re = x1.coeffs", 0),
    ("msqrt-check", PC, "modular_squareroot_in_FQ2", "candidate_squareroot**2 / value", "candidate_squareroot**2 * value", 0),
]

# mutations of the REFACTORED spellings (refactorings/C15-g5-xmd-running-block-and-comprehension, the hash.py part of
# C16-g5-keygen-hkdf-tidy, the modular_squareroot_in_FQ2 part of C11-g5-g1-sqrt-fq2-root-select): run with `--set refactored` on a
# tree that has those patches applied, to confirm that the reshaping-tolerant proofs still notice a real change there
MUTATIONS_REFACTORED = [
    ("r-expand-ctr", HASH, "hkdf_expand", "bytes([counter])", "bytes([counter - 1])", 0),
    ("r-expand-range", HASH, "hkdf_expand", "range(1, n + 1)", "range(1, n)", 0),
    ("r-expand-range0", HASH, "hkdf_expand", "range(1, n + 1)", "range(0, n)", 0),
    ("r-expand-order", HASH, "hkdf_expand", "t_prev + info +", "info + t_prev +", 0),
    ("r-expand-noext", HASH, "hkdf_expand", "        okm.extend(t_prev)\n", "        okm = t_prev\n", 0),
    ("r-expand-32", HASH, "hkdf_expand", "length / 32", "length / 64", 0),
    ("r-xmd-prev", HASH, "expand_message_xmd", "xor(b_0, b_prev)", "xor(b_0, b_0)", 0),
    ("r-xmd-stale", HASH, "expand_message_xmd",
     "        b_prev = hash_function(xor(b_0, b_prev) + i2osp(i, 1) + DST_prime).digest()\n        blocks.append(b_prev)",
     "        b_new = hash_function(xor(b_0, b_prev) + i2osp(i, 1) + DST_prime).digest()\n        blocks.append(b_new)", 0),
    ("r-xmd-range", HASH, "expand_message_xmd", "range(2, ell + 1)", "range(2, ell)", 0),
    ("r-xmd-init", HASH, "expand_message_xmd", "blocks = [b_prev]", "blocks = [b_0]", 0),
    ("r-xmd-ctr", HASH, "expand_message_xmd", "i2osp(i, 1)", "i2osp(i - 1, 1)", 0),
    ("r-h2f2-slice", H2C, "hash_to_field_FQ2", "L * (j + i * M + 1)", "L * (j + i * M) + 1", 0),
    ("r-h2f2-off", H2C, "hash_to_field_FQ2", "(j + i * M) :", "(i + j * M) :", 0),
    ("r-h2f2-range", H2C, "hash_to_field_FQ2", "for j in range(M)", "for j in range(1)", 0),
    ("r-h2f2-mod", H2C, "hash_to_field_FQ2", "% field_modulus", "% L", 0),
    ("r-h2f2-alias", H2C, "hash_to_field_FQ2", "L = HASH_TO_FIELD_L", "L = HASH_TO_FIELD_L - 1", 0),
    ("r-h2f2-outer", H2C, "hash_to_field_FQ2", "for i in range(count)", "for i in range(1, count)", 0),
    ("r-msqrt-notin", PC, "modular_squareroot_in_FQ2", "check not in even_roots", "check in even_roots", 0),
    ("r-msqrt-idx", PC, "modular_squareroot_in_FQ2", "EIGHTH_ROOTS_OF_UNITY[even_roots.index(check)]",
     "even_roots[even_roots.index(check)]", 0),
    ("r-msqrt-idx2", PC, "modular_squareroot_in_FQ2", "even_roots.index(check)", "EIGHTH_ROOTS_OF_UNITY.index(check)", 0),
    ("r-msqrt-step", PC, "modular_squareroot_in_FQ2", "EIGHTH_ROOTS_OF_UNITY[::2]", "EIGHTH_ROOTS_OF_UNITY[:-1]", 0),
    ("r-msqrt-ret", PC, "modular_squareroot_in_FQ2", "        return root1\n    return root2", "        return root2\n    return root1", 0),
    ("r-msqrt-cmp", PC, "modular_squareroot_in_FQ2", "root1_im > root2_im or", "root1_im >= root2_im or", 0),
    ("r-msqrt-neg", PC, "modular_squareroot_in_FQ2", "root2 = -root1", "root2 = root1", 0),
]


def main():
    ap = argparse.ArgumentParser()
    ap.add_argument("--repo", default="/repo")
    ap.add_argument("--lean", required=True)
    ap.add_argument("--work", default="/tmp/tie_selftest_hash")
    ap.add_argument("--only", default=None, help="regex on mutation ids")
    ap.add_argument("--targets", default=",".join(TARGETS))
    ap.add_argument("--set", default="original", choices=["original", "refactored"],
                    help="which mutation list: the original spellings (default) or the refactored ones")
    a = ap.parse_args()
    targets = [t for t in a.targets.split(",") if os.path.exists(os.path.join(a.lean, *t.split(".")) + ".lean")]
    gen_dir = os.path.join(a.lean, "PyEcc", "Gen")
    env = dict(os.environ)
    env["PATH"] = "/opt/veriftools/lean/bin:" + env["PATH"]
    results = []
    muts = [m for m in (MUTATIONS if a.set == "original" else MUTATIONS_REFACTORED) if a.only is None or re.search(a.only, m[0])]
    for mid, rel, fn, old, new, occ in muts:
        repo_mut = os.path.join(a.work, "repo_mut")
        shutil.rmtree(repo_mut, ignore_errors=True)
        shutil.copytree(a.repo, repo_mut, ignore=shutil.ignore_patterns(".git", "__pycache__", ".tox", "*.pyc"))
        try:
            mutate(repo_mut, rel, fn, old, new, occ)
        except SystemExit as e:
            results.append((mid, fn, "NOT APPLICABLE: " + str(e)))
            print(f"{mid:20s} {fn:26s}: NOT APPLICABLE ({e})", flush=True)
            continue
        gen_out = os.path.join(a.work, "Gen")
        shutil.rmtree(gen_out, ignore_errors=True)
        shutil.copytree(gen_dir, gen_out)
        rc, info = regenerate(repo_mut, gen_out)
        changed = [c for c in info["changed"] if c.startswith("ExtraHash")]
        errs = [e for e in info["errors"] if e[0].startswith("ExtraHash") or e[0] == "Consts"]
        detail = ""
        if errs:
            verdict = "caught: translator refused"
            detail = "; ".join(f"{e[0]}: {e[1][:200]}" for e in errs)
        elif not changed:
            verdict = "NOT CAUGHT: generated files unchanged"
        else:
            saved = {}
            for c in changed:
                dst = os.path.join(gen_dir, c + ".lean")
                saved[dst] = open(dst).read() if os.path.exists(dst) else None
                shutil.copy(os.path.join(gen_out, c + ".lean"), dst)
            t0 = time.time()
            r = run(["lake", "build"] + targets, cwd=a.lean, env=env)
            dt = time.time() - t0
            for dst, txt in saved.items():
                if txt is None:
                    os.remove(dst)
                else:
                    open(dst, "w").write(txt)
            if r.returncode != 0:
                lines = [ln for ln in (r.stdout + r.stderr).splitlines() if "error" in ln]
                verdict = f"caught: build failed ({dt:.0f}s)"
                detail = " | ".join(lines[:2])[:300]
            else:
                verdict = f"NOT CAUGHT: build succeeded ({dt:.0f}s)"
        results.append((mid, fn, verdict))
        print(f"{mid:20s} {fn:26s} {old!r} -> {new!r}: {verdict}\n    {detail}", flush=True)
    r = run(["lake", "build"] + targets, cwd=a.lean, env=env)
    print("pristine rebuild:", "ok" if r.returncode == 0 else "FAILED\n" + (r.stdout + r.stderr)[-2000:])
    bad = [x for x in results if not x[2].startswith("caught")]
    print(json.dumps({"mutations": len(results), "caught": len(results) - len(bad), "not_caught": [x[0] for x in bad]}))
    return 1 if bad or r.returncode != 0 else 0


if __name__ == "__main__":
    sys.exit(main())
