"""
py2lean_fieldsinv — extension of `py2lean_fields.FieldsTranslator` for the three REFERENCE-class functions whose lists
MIX Python ints and `FQ` objects, the kind of an entry changing at run time:

    py_ecc/utils.py                    poly_rounded_div(a, b)          (and `deg` on such lists)
    py_ecc/fields/field_elements.py    FQP.inv, and the FQP branch of FQP.__div__ / FQP.__truediv__

What is new (everything not understood still raises `TranslateError`):

  * a DYNAMIC value type `NUM` (Lean `PyNum = int (v : Int) | fq (n : Int)`): a Python value that is an `int` or an
    `FQ` object of the class of `self.coeffs`.  A value / list gets this type only
      - where the SOURCE mixes the kinds (`self.coeffs + (0,)`: a sequence of FQ objects followed by an int),
      - or where the job table names a local variable in `dyn` (its list holds ints now and int-or-FQ values later in
        the loop); the embeddings `int v -> PyNum.int v`, `FQ n -> PyNum.fq n` are exact, so such a declaration can only
        change the SHAPE of the output, never its meaning; a missing declaration is a loud `TranslateError`
        (loop-carried variable changes type).
    Everything else keeps its static type (`lm`, `hm`, `nm`, `o`, `r` are lists of ints: the translator derives that
    from the source, e.g. `lm[i] * int(r[j])` is int * int).
  * operators on `NUM` operands are emitted as calls of `PyNum.sub / mul / add / truediv / eq / toInt`.  These functions
    are GENERATED (`pynum_defs`) as the table of Python's binary-operator protocol over the kinds of the two operands:
        FQ  op FQ   -> type(x).__op__(x, y)       = the generated `FQ.<op>_fq`
        FQ  op int  -> type(x).__op__(x, y)       = the generated `FQ.<op>_int`
        int op FQ   -> int.__op__ is NotImplemented, so type(y).__rop__(y, x) = the generated `FQ.r<op>_int`
        int op int  -> Python's int arithmetic; for `/` this is FLOAT true division, which is outside the integer
                       fragment: `PyNum.truediv` returns the explicit outcome `DynErr.floatDivision` there (never a guess).
    The method names are looked up in the registry of the translated class FQ (a missing reflected method is an error).
  * functions that can reach `PyNum.truediv` live in `Except DynErr` (`DynErr = py (e : PyErr) | floatDivision`); calls of
    previously generated `Except PyErr` functions are lifted by the generated `MonadLift` instance.
  * `l[i]` / `l[i] op= v` on a list of `NUM` are `getN` / `updN` (generated, same totalisation as `getI` / `updAt`);
    the right-hand side of `l[i] op= v` may contain a raising operation (it is hoisted in front of the update; the
    index expression and the right-hand side have no side effects).
  * `if c1: raise .. elif c2: raise ..` chains (also inside `while` bodies), which are the same as the sequence
    `if c1: raise ..` / `if c2: raise ..`.
  * module-level functions applied to `NUM` lists take the modulus of the class of the FQ entries as an explicit leading
    parameter `field_modulus` (all FQ entries of one call are objects of ONE class: they all stem from `self.coeffs`).

`lty` / `kind_name` of py2lean_fields are wrapped (not edited) so that they know the new type.
"""
import ast
import copy
import re

import py2lean_fields as PF
from py2lean import BOOL, INT, LIT, NAT, T, Fn, TranslateError, indent, lname, terminates
from py2lean_extra import BINT, LIST, Ext, paren
from py2lean_fields import FQPT, FQT, ClassInfo, FieldsTranslator, is_list

NUM = ("obj", "PyNum")     # an int or an FQ object (kind known only at run time)

_orig_lty, _orig_kind_name = PF.lty, PF.kind_name


def lty(t):
    if t == NUM:
        return "PyNum"
    return _orig_lty(t)


def kind_name(t):
    if t == NUM:
        return "int | FQ"
    return _orig_kind_name(t)


# py2lean_fields looks these up as module globals at call time; NUM never occurs in the jobs of gen_fields
PF.lty, PF.kind_name = lty, kind_name

INTLIKE = (INT, NAT, LIT, BINT)
OPNAME = {ast.Sub: "sub", ast.Mult: "mul", ast.Add: "add", ast.Div: "truediv"}
# Python method / reflected method of the operators
DUNDER = {"sub": ("__sub__", "__rsub__"), "mul": ("__mul__", "__rmul__"), "add": ("__add__", "__radd__"),
          "truediv": ("__truediv__", "__rtruediv__")}
INT_SYM = {"sub": "-", "mul": "*", "add": "+"}


class FieldsInvTranslator(FieldsTranslator):
    """use `adopt(tr)` on a FieldsTranslator whose method registry is populated"""

    @staticmethod
    def adopt(tr):
        tr.__class__ = FieldsInvTranslator
        tr.dyn_names = set()
        tr.dyn_fns = {}          # module-level functions translated for NUM operands: name -> {kinds: Ext}
        tr.used_ops = set()      # the PyNum operations the translated functions use
        return tr

    # ------------------------------------------------------------------ helpers
    def fm(self):
        if self.curenv.get("field_modulus") != INT:
            raise TranslateError("operation on int-or-FQ values where the modulus of the FQ class is not available")
        return "field_modulus"

    def embed(self, s, t, ctx):
        if t == NUM:
            return s
        if t == FQT:
            return f"(PyNum.fq {paren(s)})"
        if t in INTLIKE:
            return f"(PyNum.int {paren(self.as_int(s, t, ctx))})"
        raise TranslateError(f"{ctx}: operand of type {t} where an int or FQ value is expected")

    def embed_list(self, s, t, ctx):
        if t == LIST(NUM):
            return s
        if t == LIST(FQT):
            return f"(List.map PyNum.fq {paren(s)})"
        if t == LIST(INT):
            return f"(List.map PyNum.int {paren(s)})"
        raise TranslateError(f"{ctx}: sequence of type {t} where a sequence of int or FQ values is expected")

    def num_binop(self, op, a, ta, b, tb, ctx, in_lambda=False):
        """`a op b` where at least one operand is a NUM: Python's dynamic dispatch, i.e. the generated table"""
        if type(op) not in OPNAME:
            raise TranslateError(f"{ctx}: operator {type(op).__name__} on int-or-FQ values")
        nm = OPNAME[type(op)]
        txt = f"PyNum.{nm} {self.fm()} {paren(self.embed(a, ta, ctx))} {paren(self.embed(b, tb, ctx))}"
        self.used_ops.add(nm)
        if nm == "truediv":
            # may be Python's float division: a raising operation
            self.saw_raise = True
            if self.binds is None or in_lambda:
                raise TranslateError(f"{ctx}: `/` on int-or-FQ values in an unsupported position")
            self.fresh += 1
            v = f"r{self.fresh}"
            self.binds.append((v, txt))
            return v, NUM
        return "(" + txt + ")", NUM

    def index(self, node, env):
        k, tk = self.expr(node, env)
        if tk == LIT and k >= 0:
            k, tk = self.cast_lit(k, NAT), NAT
        if tk != NAT:
            raise TranslateError(f"list index of type {tk} (must be a natural number)")
        return k

    # ------------------------------------------------------------------ expressions
    def expr(self, e, env):
        if isinstance(e, ast.Subscript) and not isinstance(e.slice, ast.Slice):
            if self.type_of_static(e.value, env) == LIST(NUM):
                base, _ = self.expr(e.value, env)
                k = self.index(e.slice, env)
                return f"(getN {paren(base)} {paren(k)})", NUM
        if isinstance(e, ast.Compare) and len(e.ops) == 1 and isinstance(e.ops[0], (ast.Eq, ast.NotEq)):
            ta = self.type_of_static(e.left, env)
            tb = self.type_of_static(e.comparators[0], env)
            if NUM in (ta, tb):
                if not isinstance(e.ops[0], ast.Eq):
                    raise TranslateError(f"`!=` on int-or-FQ values: {ast.unparse(e)}")
                a, _ = self.expr(e.left, env)
                b, _ = self.expr(e.comparators[0], env)
                ctx = ast.unparse(e)
                self.used_ops.add("eq")
                return (f"(PyNum.eq {self.fm()} {paren(self.embed(a, ta, ctx))} {paren(self.embed(b, tb, ctx))})"), BOOL
        if isinstance(e, ast.UnaryOp) and isinstance(e.op, ast.USub) and self.type_of_static(e.operand, env) == NUM:
            raise TranslateError(f"unary minus on an int-or-FQ value: {ast.unparse(e)}")
        return super().expr(e, env)

    def binop(self, e, env):
        op = e.op
        if isinstance(op, ast.Add):
            tl = self.type_of_static(e.left, env)
            if is_list(tl):
                right = e.right
                if isinstance(right, ast.Tuple) and right.elts:
                    right = ast.copy_location(ast.List(elts=right.elts, ctx=ast.Load()), right)   # l + (x,): the same sequence
                tr_ = self.type_of_static(right, env)
                if is_list(tr_) and tl != tr_ and {tl[1], tr_[1]} <= {INT, FQT, NUM}:
                    # a sequence of FQ objects followed by ints (or the like): a sequence of int-or-FQ values
                    a, _ = self.expr(e.left, env)
                    b, _ = self.expr(right, env)
                    ctx = ast.unparse(e)
                    return f"({self.embed_list(a, tl, ctx)} ++ {self.embed_list(b, tr_, ctx)})", LIST(NUM)
                return super().binop(e, env)
        if isinstance(op, ast.Mult) and is_list(self.type_of_static(e.left, env)):
            return super().binop(e, env)
        ta = self.type_of_static(e.left, env)
        tb = self.type_of_static(e.right, env)
        if NUM in (ta, tb):
            a, _ = self.expr(e.left, env)
            b, _ = self.expr(e.right, env)
            return self.num_binop(op, a, ta, b, tb, ast.unparse(e))
        return super().binop(e, env)

    def cond(self, e, env):
        if isinstance(e, ast.Compare) and len(e.ops) == 1 and isinstance(e.ops[0], (ast.Eq, ast.NotEq)) \
                and self.static_cond(e, env) is None:
            ta = self.type_of_static(e.left, env)
            tb = self.type_of_static(e.comparators[0], env)
            if NUM in (ta, tb):
                s, _ = self.expr(e, env)
                return f"({s} = true)"
        return super().cond(e, env)

    def call(self, e, env):
        f = e.func
        if isinstance(f, ast.Name) and f.id not in env and not e.keywords:
            if f.id == "__dyn__":
                s, t = self.expr(e.args[0], env)
                if is_list(t):
                    return self.embed_list(s, t, "dyn"), LIST(NUM)
                raise TranslateError(f"variable declared dynamic is bound to a value of type {t}")
            if f.id == "__upd__":
                r = self.upd_dyn(e, env)
                if r is not None:
                    return r
            if f.id in ("__set__", "__last__", "__droplast__") and self.type_of_static(e.args[0], env) == LIST(NUM):
                raise TranslateError("item assignment / pop on a list of int-or-FQ values")
            if f.id == "int" and len(e.args) == 1 and self.type_of_static(e.args[0], env) == NUM:
                s, _ = self.expr(e.args[0], env)
                self.used_ops.add("toInt")
                return f"(PyNum.toInt {self.fm()} {paren(s)})", INT
            if f.id in self.dyn_fns:
                key = tuple(self.kind_of(self.type_of_static(a, env)) for a in e.args)
                if key in self.dyn_fns[f.id]:
                    ext = self.dyn_fns[f.id][key]
                    args = [self.expr(a, env) for a in e.args]
                    return self.apply_ext(f.id, ext, [(self.fm(), INT)] + args)
        return super().call(e, env)

    def upd_dyn(self, e, env):
        """desugared `l[k] op= v` where `l` is a list of NUM, or `v` contains a raising operation"""
        l, k, opn, v = e.args
        lt = self.type_of_static(l, env)
        if not is_list(lt):
            return None
        mark = (None if self.binds is None else len(self.binds)), self.fresh, self.saw_raise
        vs, vt = self.expr(v, env)
        raised = self.binds is not None and len(self.binds) > mark[0]
        if lt != LIST(NUM) and not raised:
            if self.binds is not None:
                del self.binds[mark[0]:]
            self.fresh, self.saw_raise = mark[1], mark[2]
            return None
        if lt[1] not in (NUM, INT):
            raise TranslateError(f"in-place update of {lt}")
        ls, _ = self.expr(l, env)
        ks = self.index(k, env)
        px = "x'"      # not a Python identifier: no clash
        ctx = ast.unparse(v)
        if NUM in (lt[1], vt):
            bs, bt = self.num_binop(opn.op, px, lt[1], vs, vt, ctx, in_lambda=True)
        else:
            fake = ast.BinOp(left=ast.Name(id="x_", ctx=ast.Load()), op=opn.op, right=v)
            bs, bt = self.arith(fake, px, lt[1], vs, vt)
        if bt != lt[1]:
            raise TranslateError(f"in-place update changes the element type ({lt[1]} -> {bt})")
        fn_ = "updN" if lt == LIST(NUM) else "updAt"
        return f"({fn_} {paren(ls)} {paren(ks)} (fun {px} => {bs}))", lt

    # ------------------------------------------------------------------ statements
    @staticmethod
    def is_raise_if(st):
        return isinstance(st, ast.If) and len(st.body) == 1 and isinstance(st.body[0], ast.Raise) \
            and all(FieldsInvTranslator.is_raise_if(x) for x in st.orelse)

    def assigned_names(self, body):
        return super().assigned_names([st for st in body if not self.is_raise_if(st)])

    def creates_list(self, value):
        if isinstance(value, ast.Call) and isinstance(value.func, ast.Name) and value.func.id == "__dyn__":
            return self.creates_list(value.args[0])
        return super().creates_list(value)

    def may_alias(self, value):
        if isinstance(value, ast.Call) and isinstance(value.func, ast.Name) and value.func.id == "__dyn__":
            return self.may_alias(value.args[0])
        return super().may_alias(value)

    def block(self, body, env, fn, cur, tail_state=None):
        if body:
            st = body[0]
            if isinstance(st, ast.If) and st.orelse and terminates(st.body) and not terminates(st.orelse) \
                    and self.static_cond(st.test, env) is None:
                # `if c: <exit> else: S` is `if c: <exit>` followed by S
                first = ast.copy_location(ast.If(test=st.test, body=st.body, orelse=[]), st)
                return self.block([first] + list(st.orelse) + list(body[1:]), env, fn, cur, tail_state=tail_state)
            if isinstance(st, ast.Assign) and len(st.targets) == 1 and isinstance(st.targets[0], ast.Name) \
                    and st.targets[0].id in self.dyn_names \
                    and not (isinstance(st.value, ast.Call) and isinstance(st.value.func, ast.Name)
                             and st.value.func.id in ("__dyn__", "__upd__", "__set__", "__droplast__")) \
                    and not (isinstance(st.value, ast.Name) and st.value.id.startswith("tmp_")):
                self.curenv = env
                t = self.type_of_static(st.value, env)
                if t != LIST(NUM):
                    wrapped = ast.Call(func=ast.Name(id="__dyn__", ctx=ast.Load()), args=[st.value], keywords=[])
                    st2 = ast.copy_location(ast.Assign(targets=st.targets, value=wrapped), st)
                    return self.block([st2] + list(body[1:]), env, fn, cur, tail_state=tail_state)
        return super().block(body, env, fn, cur, tail_state=tail_state)

    def while_loop_x(self, st, rest, env, fn, cur):
        """as FieldsTranslator.while_loop_x, but the body may contain `raise` statements (in a raising function)"""
        if st.orelse:
            raise TranslateError(f"{fn.name}: while/else")
        if any(isinstance(n, (ast.Return, ast.Break, ast.Continue)) for s in st.body for n in ast.walk(s)):
            raise TranslateError(f"{fn.name}: return/break/continue inside while")
        has_raise = any(isinstance(n, ast.Raise) for s in st.body for n in ast.walk(s))
        if has_raise and not fn.raises:
            raise TranslateError(f"{fn.name}: raise inside the while loop of a non-raising function")
        if self.loops_done >= len(self.fuels):
            raise TranslateError(f"{fn.name}: no fuel expression for the while loop at line {st.lineno}")
        fuel = self.fuels[self.loops_done]
        k = self.loops_done
        self.loops_done += 1
        body = self.desugar_deep(st.body, env)
        assigned = self.assigned_names(body)
        if assigned is None:
            raise TranslateError(f"{fn.name}: while body must consist of assignments, ifs of assignments, raising ifs "
                                 f"and for loops")
        state = [n for n in assigned if n in env]
        locals_ = [n for n in assigned if n not in env]
        used_after = self.names_in(rest)
        for n in locals_:
            if n in used_after:
                raise TranslateError(f"{fn.name}: variable {n} defined only inside the while loop is used after it")
            if self.reads_before_write(body, n) or any(isinstance(x, ast.Name) and x.id == n for x in ast.walk(st.test)):
                raise TranslateError(f"{fn.name}: loop-local variable {n} is read before it is assigned")
        if not state:
            raise TranslateError(f"{fn.name}: while loop without state")
        state = self.state_order(state, env)
        types = [env[n] for n in state]
        sty = T(*types) if len(state) > 1 else types[0]
        pat = "(" + ", ".join(lname(n) for n in state) + ")" if len(state) > 1 else lname(state[0])
        mentioned = self.names_in(body) | self.names_in([st.test])
        # (`field_modulus` is never mentioned by name in a module-level function: it is the modulus of the FQ entries)
        caps = [n for n in env if n not in state
                and (n in mentioned or n in [ln for ln, _ in self.cparams(self.cls)] or n == "field_modulus")
                and not (isinstance(env[n], tuple) and env[n][0] == "fn")]
        loop_name = f"{self.curname}_loop{k}"
        cap_decl = " ".join(f"({lname(n)} : {lty(env[n])})" for n in caps)
        cap_args = " ".join(lname(n) for n in caps)
        mname = f"__WHILE_{len(self.markers)}_{len(self.loop_markers)}__"
        marker = ast.Return(value=ast.Name(id=mname, ctx=ast.Load()))
        prefix = " ".join(x for x in [loop_name, cap_args, "fuel"] if x)

        def run(raising):
            self.loop_markers[mname] = (prefix, list(state), types, raising)
            try:
                return self.block(list(body) + [marker], self.while_body_env(st, body, assigned, env),
                                  Fn(fn.name + ".<while>", [], sty, raising), cur)
            finally:
                del self.loop_markers[mname]
        save = self.saw_raise, self.fresh, self.itcount
        save_fresh = set(self.fresh_lists)
        self.saw_raise = False
        raising = False
        if fn.raises:
            body_txt = run(True)
            raising = self.saw_raise or has_raise
        if not raising:
            self.fresh, self.itcount = save[1], save[2]
            self.fresh_lists = set(save_fresh)
            body_txt = run(False)
        self.saw_raise = save[0] or raising
        c = self.cond_pure(st.test, env)
        rty = f"Except PyErr ({lty(sty)})" if raising else lty(sty)
        if raising:
            aux = (f"/- the `while` loop at line {st.lineno} of `{fn.name}`; state: {pat} -/\n"
                   f"def {loop_name} {cap_decl} : Nat → {PF.paren_ty(lty(sty))} → {rty}\n"
                   f"  | 0, st => pure st\n"
                   f"  | fuel+1, {pat} =>\n"
                   f"    if {c} then do\n{indent(body_txt, 6)}\n    else pure {pat}")
        else:
            aux = (f"/- the `while` loop at line {st.lineno} of `{fn.name}`; state: {pat} -/\n"
                   f"def {loop_name} {cap_decl} : Nat → {PF.paren_ty(lty(sty))} → {rty}\n"
                   f"  | 0, st => st\n"
                   f"  | fuel+1, {pat} =>\n"
                   f"    if {c} then\n{indent(body_txt, 6)}\n    else {pat}")
        cur["aux_defs"].append(aux)
        arrow = "←" if raising else ":="
        call = " ".join(x for x in [loop_name, cap_args, paren(fuel), pat] if x)
        return f"let {pat} {arrow} {call}\n" + self.block(rest, env, fn, cur)

    # ------------------------------------------------------------------ functions / methods
    @staticmethod
    def to_dynerr(txt):
        """the text of a raising definition, moved from `Except PyErr` to `Except DynErr`"""
        txt = txt.replace("Except PyErr", "Except DynErr")
        return re.sub(r"throw PyErr\.(\w+)", r"throw (DynErr.py PyErr.\1)", txt)

    def method_dyn(self, cname, mname, lean_name, kinds=None, dyn=(), **kw):
        """a method in `Except DynErr` (it can reach a `/` on int-or-FQ values, directly or through a callee)"""
        self.dyn_names = set(dyn)
        try:
            txt = self.method(cname, mname, lean_name, kinds, raises=True, **kw)
        finally:
            self.dyn_names = set()
        if dyn:
            note = ("/- represented as lists of `PyNum` from their first assignment on (int entries now, int or FQ entries "
                    "in later rounds): " + ", ".join(dyn) + " -/\n")
            txt = txt.replace("\n", "\n" + note, 1)
        return self.to_dynerr(txt)

    def function_dyn(self, name, lean_name, kinds, ret, raises, fuels=(), nonneg=(), dyn=()):
        """a module-level function applied to sequences of int-or-FQ values; the modulus of the class of the FQ entries
        is the leading parameter `field_modulus`"""
        node = None
        for n in self.tree.body:
            if isinstance(n, ast.FunctionDef) and n.name == name:
                node = n
        if node is None:
            raise TranslateError(f"function {name} not found")
        self.check_decorators(node, ())
        kinds = dict(kinds)
        a = node.args
        if a.kwonlyargs or a.vararg or a.kwarg or a.posonlyargs or a.defaults:
            raise TranslateError(f"{name}: unsupported parameter kinds")
        params = [(p.arg, self.param_type(p, kinds)) for p in a.args]
        if any(n == "field_modulus" for n, _ in params):
            raise TranslateError(f"{name}: parameter name clash")
        allp = [("field_modulus", INT)] + params
        fn = Fn(name, allp, ret, raises, None, lean_name=lean_name)
        env = {n: t for n, t in allp}
        cur = {"aux_defs": [], "outline_loops": False}
        self.cls, self.selfname, self.init_attrs = ClassInfo("<module>", None, {}), None, None
        self.fresh, self.itcount, self.saw_raise = 0, 0, False
        self.fuels, self.loops_done, self.curname = list(fuels), 0, lean_name
        self.fresh_lists = set()
        self.dyn_names = set(dyn)
        self.helper_hdrs = []
        save_nonneg = set(self.nonneg)
        self.nonneg |= set(nonneg)
        try:
            body = self.block(self.normalize_stmts(list(node.body)), env, fn, cur)
        finally:
            self.nonneg = save_nonneg
            self.dyn_names = set()
        if self.loops_done != len(self.fuels):
            raise TranslateError(f"{name}: {len(self.fuels)} fuel expressions for {self.loops_done} while loops")
        if raises and not self.saw_raise:
            raise TranslateError(f"{name}: declared raising but nothing can raise")
        ext = Ext(lean_name, list(allp), ret, raises)
        key = tuple(self.kind_of(t) for _, t in params)
        self.dyn_fns.setdefault(name, {})[key] = ext
        pdecl = " ".join(f"({lname(n)} : {lty(t)})" for n, t in allp)
        kd = "/- operand kinds: " + ", ".join(f"{k} : {kind_name(v)}" for k, v in kinds.items()) + " -/\n"
        aux = "".join(x + "\n\n" for x in cur["aux_defs"])
        rs = lty(ret)
        full = f"Except PyErr ({rs})" if raises else rs
        do = " do" if raises else ""
        hh = "".join(self.helper_hdrs)
        txt = f"{self.header(node, '')}{hh}{kd}{aux}def {lean_name} {pdecl} : {full} :={do}\n{indent(body, 2)}\n"
        return self.to_dynerr(txt) if raises else txt

    # ------------------------------------------------------------------ the generated operator tables
    def fq_method(self, mname, kind):
        return self.lookup_method("FQ", mname, [kind], f"operator table ({mname})").lean

    def pynum_defs(self):
        """the PyNum operations used by the translated functions, as tables over the kinds of the operands"""
        out = []
        for nm in ("add", "sub", "mul"):
            if nm not in self.used_ops:
                continue
            m, r = DUNDER[nm]
            out.append(
                f"/- Python's `x {INT_SYM[nm]} y` on int-or-FQ operands: `type(x).{m}(x, y)`; for an int `x` and an FQ `y` that is\n"
                f"   NotImplemented and Python evaluates `type(y).{r}(y, x)` -/\n"
                f"def PyNum.{nm} (field_modulus : Int) : PyNum → PyNum → PyNum\n"
                f"  | .int a, .int b => .int (a {INT_SYM[nm]} b)\n"
                f"  | .fq a, .int b => .fq ({self.fq_method(m, INT)} field_modulus a b)\n"
                f"  | .fq a, .fq b => .fq ({self.fq_method(m, FQT)} field_modulus a b)\n"
                f"  | .int a, .fq b => .fq ({self.fq_method(r, INT)} field_modulus b a)\n")
        if "truediv" in self.used_ops:
            m, r = DUNDER["truediv"]
            out.append(
                f"/- Python's `x / y` on int-or-FQ operands: `type(x).{m}(x, y)`, for an int `x` and an FQ `y`\n"
                f"   `type(y).{r}(y, x)`.  On TWO ints Python performs FLOAT true division (a float, `ZeroDivisionError` or\n"
                f"   `OverflowError`): outside the integer fragment, reported as `DynErr.floatDivision` -/\n"
                f"def PyNum.truediv (field_modulus : Int) : PyNum → PyNum → Except DynErr PyNum\n"
                f"  | .int a, .int b => throw DynErr.floatDivision\n"
                f"  | .fq a, .int b => pure (.fq ({self.fq_method(m, INT)} field_modulus a b))\n"
                f"  | .fq a, .fq b => pure (.fq ({self.fq_method(m, FQT)} field_modulus a b))\n"
                f"  | .int a, .fq b => pure (.fq ({self.fq_method(r, INT)} field_modulus b a))\n")
        if "eq" in self.used_ops:
            out.append(
                f"/- Python's `x == y` on int-or-FQ operands: `type(x).__eq__(x, y)`, for an int `x` and an FQ `y` the reflected\n"
                f"   `type(y).__eq__(y, x)` -/\n"
                f"def PyNum.eq (field_modulus : Int) : PyNum → PyNum → Bool\n"
                f"  | .int a, .int b => decide (a = b)\n"
                f"  | .fq a, .int b => {self.fq_method('__eq__', INT)} field_modulus a b\n"
                f"  | .fq a, .fq b => {self.fq_method('__eq__', FQT)} field_modulus a b\n"
                f"  | .int a, .fq b => {self.fq_method('__eq__', INT)} field_modulus b a\n")
        if "toInt" in self.used_ops:
            ext = self.lookup_method("FQ", "__int__", [], "operator table (__int__)")
            out.append(
                f"/- Python's `int(x)` on an int-or-FQ value: the int itself, `type(x).__int__(x)` for an FQ object -/\n"
                f"def PyNum.toInt (field_modulus : Int) : PyNum → Int\n"
                f"  | .int v => v\n"
                f"  | .fq n => {ext.lean} field_modulus n\n")
        return "\n".join(out)


PRELUDE = (
    "/-- a Python value that is an `int` (`int v`) or an `FQ` object with attribute `n` (`fq n`); which of the two is known\n"
    "    only at run time -/\n"
    "inductive PyNum where\n"
    "  | int (v : Int)\n"
    "  | fq (n : Int)\n"
    "  deriving DecidableEq, Repr\n"
    "\n"
    "/-- outcome of the functions on int-or-FQ values other than a result: a Python exception, or `floatDivision`: Python\n"
    "    evaluates `<int> / <int>` there, i.e. FLOAT true division (which the integer model does not cover) -/\n"
    "inductive DynErr where\n"
    "  | py (e : PyErr)\n"
    "  | floatDivision\n"
    "  deriving DecidableEq, Repr\n"
    "\n"
    "/-- a function that can only raise a Python exception, used inside one that can also hit `floatDivision` -/\n"
    "def DynErr.lift {α : Type} : Except PyErr α → Except DynErr α\n"
    "  | .ok a => .ok a\n"
    "  | .error e => .error (.py e)\n"
    "\n"
    "instance : MonadLift (Except PyErr) (Except DynErr) := ⟨DynErr.lift⟩\n"
    "\n"
    "/-- `l[i]` on a list of int-or-FQ values (out of range: the int 0, as `getI`) -/\n"
    "def getN (l : List PyNum) (i : Nat) : PyNum := l.getD i (PyNum.int 0)\n"
    "\n"
    "/-- `l[i] = f(l[i])` on a list of int-or-FQ values (out of range: no effect, as `updAt`) -/\n"
    "def updN : List PyNum → Nat → (PyNum → PyNum) → List PyNum\n"
    "  | [], _, _ => []\n"
    "  | x :: xs, 0, f => f x :: xs\n"
    "  | x :: xs, i+1, f => x :: updN xs i f\n")
