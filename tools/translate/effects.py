#!/usr/bin/env python3
"""
effects — conservative write-effect summaries for EVERY function and method of py_ecc (property C20).

For each `def` it lists the places the function may WRITE to, classified as

  fresh      a list/bytearray/dict/set created in this activation (display, comprehension, `list(..)`,
             `[..] * n`, concatenation with a display, slice copy, result of a py_ecc function whose
             every `return` is itself fresh) and never stored anywhere else
  selfInit   `self.x = …` inside `__init__` (initialising the object under construction)
  memo       the two sanctioned memoisations: `functools.cached_property` getters (per-object cache of a
             pure value) and the idempotent lazy-import cache `globals()[name] = import_module(..)` in
             py_ecc/__init__.py
  param p    anything reachable from parameter `p` (incl. `self` outside `__init__`, default arguments)
  global g   a module-level name, a class attribute, `global`/`nonlocal` declarations
  unknown d  an alias the analysis cannot resolve (conservative)

Only `fresh`, `selfInit`, `memo` are CLEAN.  The summaries are emitted as Lean data
(`Gen/Effects.lean`); the theorem `PyEcc.C20.all_clean` evaluates `allClean effects = true`, and the
semantic theorem `clean_pure` (Props/C20.lean) turns that into history independence.  The analysis
is syntactic and trusted (DESIGN §3.8); it is cross-examined on every run by the history harness,
which snapshots arguments and module constants around real calls.
"""
import ast
import hashlib
import os

MUT_METHODS = {"append", "extend", "pop", "insert", "remove", "clear", "sort", "reverse", "update",
               "setdefault", "add", "discard", "popitem", "__setitem__", "__delitem__", "__iadd__", "__imul__"}
FRESH_CALLS = {"list", "bytearray", "dict", "set", "sorted", "deepcopy", "copy"}
IMMUT_CALLS = {"int", "len", "pow", "bytes", "range", "zip", "enumerate", "reversed", "tuple", "sum", "abs", "max", "min",
               "bool", "str", "isinstance", "type", "ceil", "log2", "divmod", "any", "all", "cast", "hash", "repr", "float"}
MEMO_DECORATORS = {"cached_property"}
CACHE_DECORATORS = {"lru_cache", "cache"}
INPLACE_DUNDERS = {"__iadd__", "__isub__", "__imul__", "__itruediv__", "__ifloordiv__", "__imod__", "__ipow__",
                   "__ilshift__", "__irshift__", "__iand__", "__ior__", "__ixor__", "__setitem__", "__delitem__",
                   "__setattr__", "__delattr__"}


def _dec_name(d):
    if isinstance(d, ast.Call):
        d = d.func
    if isinstance(d, ast.Attribute):
        return d.attr
    if isinstance(d, ast.Name):
        return d.id
    return ""


class FnInfo:
    def __init__(self, qual, rel, node, cls):
        self.qual, self.rel, self.node, self.cls = qual, rel, node, cls
        self.writes = []          # (kind, detail, lineno)
        self.calls = set()
        self.returns_fresh = None
        self.decorators = [_dec_name(d) for d in node.decorator_list]


def collect(repo):
    """all function definitions of the package, qualified names"""
    fns = {}
    modules = {}
    root = os.path.join(repo, "py_ecc")
    for dp, _, files in sorted(os.walk(root)):
        for f in sorted(files):
            if not f.endswith(".py"):
                continue
            path = os.path.join(dp, f)
            rel = os.path.relpath(path, repo)
            src = open(path).read()
            tree = ast.parse(src)
            modules[rel] = (tree, src)

            def visit(body, prefix, cls, rel=rel):
                for n in body:
                    if isinstance(n, (ast.FunctionDef, ast.AsyncFunctionDef)):
                        q = prefix + n.name
                        fns[(rel, q)] = FnInfo(q, rel, n, cls)
                        visit(n.body, q + ".<locals>.", cls)
                    elif isinstance(n, ast.ClassDef):
                        visit(n.body, prefix + n.name + ".", n.name)
                    elif isinstance(n, (ast.If, ast.Try, ast.With, ast.For, ast.While)):
                        for fld in ("body", "orelse", "finalbody", "handlers"):
                            sub = getattr(n, fld, [])
                            for s in sub:
                                if isinstance(s, ast.ExceptHandler):
                                    visit(s.body, prefix, cls)
                            visit([s for s in sub if not isinstance(s, ast.ExceptHandler)], prefix, cls)
            visit(tree.body, "", None)
    return fns, modules


def module_globals(tree):
    g = set()
    for n in tree.body:
        if isinstance(n, ast.Assign):
            for t in n.targets:
                for x in ast.walk(t):
                    if isinstance(x, ast.Name):
                        g.add(x.id)
        elif isinstance(n, (ast.AnnAssign, ast.AugAssign)) and isinstance(n.target, ast.Name):
            g.add(n.target.id)
        elif isinstance(n, (ast.Import, ast.ImportFrom)):
            for a in n.names:
                g.add((a.asname or a.name).split(".")[0])
        elif isinstance(n, (ast.FunctionDef, ast.ClassDef)):
            g.add(n.name)
    return g


class Analyzer:
    def __init__(self, fns, modules):
        self.fns, self.modules = fns, modules
        self.by_name = {}
        for (rel, q), fi in fns.items():
            self.by_name.setdefault(q.split(".")[-1], []).append(fi)
        self.globals = {rel: module_globals(tree) for rel, (tree, _) in modules.items()}
        self.classes = set()
        for rel, (tree, _) in modules.items():
            for n in ast.walk(tree):
                if isinstance(n, ast.ClassDef):
                    self.classes.add(n.name)
                # class aliases and dynamically created classes at module level: `FQ = type(..)`, `FQ2 = bls12_381_FQ2`
            for n in tree.body:
                if isinstance(n, (ast.ImportFrom,)):
                    for a in n.names:
                        nm = a.asname or a.name
                        if nm[:1].isupper() and ("FQ" in nm):
                            self.classes.add(nm)

    # ---- freshness of an expression: "fresh" | "immut" | "unknown"
    def expr_kind(self, e, env):
        if isinstance(e, (ast.List, ast.ListComp, ast.Dict, ast.DictComp, ast.Set, ast.SetComp)):
            return "fresh"
        if isinstance(e, (ast.Constant, ast.Tuple, ast.JoinedStr, ast.Compare, ast.BoolOp, ast.UnaryOp, ast.GeneratorExp, ast.Lambda)):
            if isinstance(e, ast.UnaryOp):
                return "immut" if self.expr_kind(e.operand, env) in ("immut",) else "unknown"
            return "immut"
        if isinstance(e, ast.Name):
            return env.get(e.id, "unknown")
        if isinstance(e, ast.BinOp):
            l, r = self.expr_kind(e.left, env), self.expr_kind(e.right, env)
            if isinstance(e.op, (ast.Add, ast.Mult)) and "fresh" in (l, r):
                return "fresh"      # list concatenation / repetition builds a new list
            if l == "immut" and r == "immut":
                return "immut"
            return "unknown"
        if isinstance(e, ast.Subscript):
            if isinstance(e.slice, ast.Slice) and self.expr_kind(e.value, env) == "fresh":
                return "fresh"      # slice of an owned list is a new list
            return "unknown"
        if isinstance(e, ast.IfExp):
            a, b = self.expr_kind(e.body, env), self.expr_kind(e.orelse, env)
            return a if a == b else "unknown"
        if isinstance(e, ast.Call):
            f = e.func
            nm = f.id if isinstance(f, ast.Name) else (f.attr if isinstance(f, ast.Attribute) else "")
            if isinstance(f, ast.Name) and nm in FRESH_CALLS:
                return "fresh"
            if isinstance(f, ast.Name) and nm in IMMUT_CALLS:
                return "immut"
            if isinstance(f, ast.Attribute) and nm in ("copy",):
                return "fresh"
            if isinstance(f, ast.Attribute) and nm in ("digest", "to_bytes", "from_bytes", "hex", "encode", "join", "bit_length"):
                return "immut"
            # constructor calls create a new object: `cls(..)`, `type(self)(..)`, `ClassName(..)`
            if isinstance(f, ast.Name) and (nm == "cls" or nm in self.classes):
                return "fresh"
            if isinstance(f, ast.Call) and isinstance(f.func, ast.Name) and f.func.id == "type":
                return "fresh"
            if isinstance(f, ast.Attribute) and isinstance(f.value, ast.Name) and f.value.id == "self" and nm in ("FQP_corresponding_FQ_class",):
                return "fresh"
            cands = self.by_name.get(nm, [])
            if cands and all(c.returns_fresh for c in cands):
                return "fresh"
            return "unknown"
        return "unknown"

    def local_env(self, fi):
        """name -> kind for names bound in this function; parameters are 'param'"""
        node = fi.node
        params = [a.arg for a in node.args.posonlyargs + node.args.args + node.args.kwonlyargs]
        if node.args.vararg:
            params.append(node.args.vararg.arg)
        if node.args.kwarg:
            params.append(node.args.kwarg.arg)
        env = {p: "param" for p in params}
        bindings = {}
        own = self.own_nodes(node)
        for n in own:
            if isinstance(n, ast.Assign):
                for t in n.targets:
                    self._bind(t, n.value, bindings)
            elif isinstance(n, ast.AnnAssign) and n.value is not None:
                self._bind(n.target, n.value, bindings)
            elif isinstance(n, (ast.For, ast.comprehension)):
                for x in ast.walk(n.target):
                    if isinstance(x, ast.Name):
                        bindings.setdefault(x.id, []).append(None)
            elif isinstance(n, ast.With):
                for it in n.items:
                    if it.optional_vars is not None:
                        for x in ast.walk(it.optional_vars):
                            if isinstance(x, ast.Name):
                                bindings.setdefault(x.id, []).append(None)
            elif isinstance(n, ast.AugAssign) and isinstance(n.target, ast.Name):
                bindings.setdefault(n.target.id, []).append(("aug", n))
        # fixpoint: a name is fresh iff every binding is a fresh expression
        for _ in range(4):
            for name, bs in bindings.items():
                if name in params:
                    continue
                kinds = []
                for b in bs:
                    if b is None:
                        kinds.append("unknown")
                    elif isinstance(b, tuple):
                        kinds.append(env.get(name, "unknown") if env.get(name) in ("fresh", "immut") else "aug")
                    else:
                        kinds.append(self.expr_kind(b, env))
                ks = [k for k in kinds if k != "aug"]
                if ks and all(k == "fresh" for k in ks):
                    env[name] = "fresh"
                elif ks and all(k in ("immut", "fresh") for k in ks):
                    env[name] = "immut" if all(k == "immut" for k in ks) else "unknown"
                else:
                    env[name] = "unknown"
        return env, set(params), set(bindings)

    @staticmethod
    def _bind(target, value, bindings):
        if isinstance(target, ast.Name):
            bindings.setdefault(target.id, []).append(value)
        elif isinstance(target, (ast.Tuple, ast.List)):
            for i, t in enumerate(target.elts):
                if isinstance(value, (ast.Tuple, ast.List)) and len(value.elts) == len(target.elts):
                    Analyzer._bind(t, value.elts[i], bindings)
                else:
                    for x in ast.walk(t):
                        if isinstance(x, ast.Name):
                            bindings.setdefault(x.id, []).append(None)

    @staticmethod
    def own_nodes(fn):
        """nodes of the function body, not descending into nested defs/classes"""
        out = []
        stack = list(fn.body)
        while stack:
            n = stack.pop()
            out.append(n)
            for c in ast.iter_child_nodes(n):
                if isinstance(c, (ast.FunctionDef, ast.AsyncFunctionDef, ast.ClassDef)):
                    continue
                stack.append(c)
        return out

    def base_of(self, e):
        """root name of an attribute/subscript chain, and whether the chain goes through a call"""
        through_call = False
        while True:
            if isinstance(e, (ast.Attribute, ast.Subscript)):
                e = e.value
            elif isinstance(e, ast.Call):
                through_call = True
                f = e.func
                if isinstance(f, ast.Name) and f.id == "globals":
                    return "globals()", True
                e = f
            else:
                break
        if isinstance(e, ast.Name):
            return e.id, through_call
        return None, through_call

    def classify_target(self, fi, base, through_call, env, params, locals_, direct_self_attr=False):
        if base == "globals()":
            return ("global", "globals()")
        if base is None:
            return ("unknown", "expression")
        if direct_self_attr and fi.node.name == "__init__" and base == "self":
            return ("selfInit", "self")
        if base in params:
            return ("param", base)
        if base in locals_:
            k = env.get(base, "unknown")
            if k == "fresh" and not through_call:
                return ("fresh", base)
            return ("unknown", base)
        return ("global", base)

    def analyze_fn(self, fi):
        env, params, locals_ = self.local_env(fi)
        node = fi.node
        w = []
        for n in self.own_nodes(node):
            tgts = []
            if isinstance(n, ast.Assign):
                tgts = n.targets
            elif isinstance(n, (ast.AugAssign, ast.AnnAssign)):
                tgts = [n.target]
            elif isinstance(n, ast.Delete):
                tgts = n.targets
            for t in tgts:
                for tt in ([t] if not isinstance(t, (ast.Tuple, ast.List)) else t.elts):
                    if isinstance(tt, ast.Attribute):
                        base, tc = self.base_of(tt)
                        direct = isinstance(tt.value, ast.Name)
                        w.append(self.classify_target(fi, base, tc, env, params, locals_, direct_self_attr=direct) + (n.lineno,))
                    elif isinstance(tt, ast.Subscript):
                        base, tc = self.base_of(tt)
                        k = self.classify_target(fi, base, tc, env, params, locals_)
                        # x[i] = … where x = self.attr… is a write through self even in __init__
                        if not isinstance(tt.value, ast.Name) and k[0] == "fresh":
                            k = ("unknown", base)
                        w.append(k + (n.lineno,))
                    elif isinstance(tt, ast.Name) and isinstance(n, ast.AugAssign):
                        # in-place operator on a possibly shared mutable object
                        k = env.get(tt.id, "param" if tt.id in params else "unknown")
                        if isinstance(n.op, (ast.Add, ast.Mult, ast.BitOr, ast.BitAnd, ast.Sub, ast.BitXor)) and k not in ("fresh", "immut"):
                            if tt.id in params:
                                w.append(("inplaceParam", tt.id, n.lineno))
                            elif tt.id not in locals_ or k == "unknown":
                                w.append(("inplaceUnknown", tt.id, n.lineno))
            if isinstance(n, (ast.Global, ast.Nonlocal)):
                for nm in n.names:
                    w.append(("global", nm, n.lineno))
            if isinstance(n, ast.Call):
                f = n.func
                if isinstance(f, ast.Attribute) and f.attr in MUT_METHODS:
                    base, tc = self.base_of(f.value)
                    direct = isinstance(f.value, ast.Name)
                    k = self.classify_target(fi, base, tc, env, params, locals_)
                    if k[0] == "fresh" and not direct:
                        k = ("unknown", base)
                    # bytes/int `.pop`-like names do not exist; dict/list/set/bytearray methods mutate
                    w.append(k + (n.lineno,))
                if isinstance(f, ast.Name) and f.id in ("setattr", "delattr") and n.args:
                    base, tc = self.base_of(n.args[0])
                    w.append(self.classify_target(fi, base, tc, env, params, locals_) + (n.lineno,))
                if isinstance(f, ast.Name):
                    fi.calls.add(f.id)
                elif isinstance(f, ast.Attribute):
                    fi.calls.add(f.attr)
        if any(d in MEMO_DECORATORS for d in fi.decorators):
            w.append(("memo", "cached_property", node.lineno))
        if any(d in CACHE_DECORATORS for d in fi.decorators):
            w.append(("global", "lru_cache", node.lineno))
        if fi.node.name in INPLACE_DUNDERS:
            w.append(("param", "self:" + fi.node.name, node.lineno))
        # default arguments that are mutable displays are shared state across calls
        for d in list(node.args.defaults) + [d for d in node.args.kw_defaults if d is not None]:
            if isinstance(d, (ast.List, ast.Dict, ast.Set, ast.ListComp, ast.DictComp, ast.SetComp, ast.Call)) and not (
                    isinstance(d, ast.Call) and isinstance(d.func, ast.Name) and d.func.id in IMMUT_CALLS):
                w.append(("global", "mutable-default", node.lineno))
        fi.writes = w

    def returns_fresh(self, fi):
        env, _, _ = self.local_env(fi)
        rets = [n for n in self.own_nodes(fi.node) if isinstance(n, ast.Return)]
        if not rets:
            return True
        ok = True
        for r in rets:
            if r.value is None:
                continue
            k = self.expr_kind(r.value, env)
            if k not in ("fresh", "immut"):
                ok = False
        return ok

    def run(self):
        for fi in self.fns.values():
            fi.returns_fresh = False
        for _ in range(5):
            for fi in self.fns.values():
                fi.returns_fresh = self.returns_fresh(fi)
        for fi in self.fns.values():
            self.analyze_fn(fi)
        # the sanctioned lazy-import memo
        for (rel, q), fi in self.fns.items():
            if rel == os.path.join("py_ecc", "__init__.py") and q == "_import_module":
                src = ast.unparse(fi.node)
                if "globals()[name] = module" in src and "importlib.import_module" in src:
                    fi.writes = [("memo", "lazy-import", ln) if k == "global" and d == "globals()" else (k, d, ln)
                                 for (k, d, ln) in fi.writes]


CLEAN = {"fresh", "selfInit", "memo"}


def module_level_mutations(modules):
    """module-level statements that mutate an existing object after its definition (import-time only: harmless for
    history independence, but listed)"""
    out = []
    for rel, (tree, _) in modules.items():
        for n in tree.body:
            if isinstance(n, ast.Expr) and isinstance(n.value, ast.Call) and isinstance(n.value.func, ast.Attribute) \
                    and n.value.func.attr in MUT_METHODS:
                out.append((rel, n.lineno, ast.unparse(n)[:80]))
    return out


def lean_str(s):
    return '"' + s.replace("\\", "\\\\").replace('"', '\\"') + '"'


def generate(repo):
    fns, modules = collect(repo)
    an = Analyzer(fns, modules)
    an.run()
    rows = []
    dirty = []
    for (rel, q), fi in sorted(fns.items()):
        ws = []
        for (k, d, ln) in sorted(set(fi.writes)):
            if k == "fresh":
                ws.append("Target.fresh")
            elif k == "selfInit":
                ws.append("Target.selfInit")
            elif k == "memo":
                ws.append("Target.memo")
            elif k in ("param", "inplaceParam"):
                ws.append(f"Target.param {lean_str(d)}")
            elif k == "global":
                ws.append(f"Target.global {lean_str(d)}")
            else:
                ws.append(f"Target.unknown {lean_str(k + ':' + d)}")
            if k not in CLEAN:
                dirty.append({"file": rel, "function": q, "line": ln, "kind": k, "detail": d})
        ws = sorted(set(ws))
        rows.append(f"  ⟨{lean_str(rel + '::' + q)}, {fi.node.lineno}, [{', '.join(ws)}], {'true' if fi.returns_fresh else 'false'}⟩")
    txt = ("-- GENERATED by tools/translate/effects.py from the repository working tree. DO NOT EDIT.\n"
           "import PyEcc.Model.Effects\n"
           "namespace PyEcc.Gen.Effects\nopen PyEcc.Effects\n\n"
           "/-- one record per function/method of py_ecc: (qualified name, line, write targets, every return is fresh/immutable) -/\n"
           "def effects : List FnEffect := [\n" + ",\n".join(rows) + "\n]\n\n"
           "end PyEcc.Gen.Effects\n")
    return txt, dirty, len(rows)


if __name__ == "__main__":
    import json
    import sys
    repo = sys.argv[1] if len(sys.argv) > 1 else "/repo"
    txt, dirty, n = generate(repo)
    print(json.dumps({"functions": n, "dirty": dirty}, indent=1))
