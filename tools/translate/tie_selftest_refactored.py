#!/usr/bin/env python3
"""
Self-test of the ROBUST tie proofs (Props/Tie{Secp,Pairing,Miller,Swu,Cofactor,Codec}.lean) on refactored trees.

For every refactoring directory `<refactorings>/<name>/patch.diff` listed in CASES:
  1. apply the patch to a copy of the repository, regenerate `Gen/Extra{Secp,Pairing,Miller,Swu,Codec}.lean`, and check that
     the tie modules BUILD (the behaviour-preserving refactoring is survived);
  2. for every mutation of the refactored text listed for it: apply it on top, regenerate, and check that the tie modules
     now FAIL to build (the fall-back proofs are not so permissive that they accept a real change), recording the time.
Finally the pristine generated files are restored and the build is checked once more.

  tie_selftest_refactored.py --repo <snapshot of the repo> --refactorings <dir> --lean <lean project> [--work DIR] [--only REGEX]
"""
import argparse
import json
import os
import re
import shutil
import subprocess
import sys
import time

HERE = os.path.dirname(os.path.abspath(__file__))
sys.path.insert(0, HERE)
from tie_selftest import mutate, regenerate, run  # noqa: E402

MINE = ("ExtraSecp", "ExtraPairing", "ExtraMiller", "ExtraSwu", "ExtraCodec")
TARGETS = ["PyEcc.Props.TieSecp", "PyEcc.Props.TiePairing", "PyEcc.Props.TieMiller", "PyEcc.Props.TieSwu",
           "PyEcc.Props.TieCofactor", "PyEcc.Props.TieCodec"]

# refactoring -> [(id, file, function, old text, new text, occurrence)]
CASES = {
    "C06-g5-sign-recover-tidy": [
        ("c06-27", "py_ecc/secp256k1/secp256k1.py", "ecdsa_raw_sign", "return 27 + (y % 2), r, s", "return 28 + (y % 2), r, s", 0),
        ("c06-xor", "py_ecc/secp256k1/secp256k1.py", "ecdsa_raw_sign", "((y % 2) ^ 1)", "((y % 2) ^ 0)", 0),
        ("c06-neg", "py_ecc/secp256k1/secp256k1.py", "ecdsa_raw_sign", "r, N - s", "r, N + s", 0),
        ("c06-test", "py_ecc/secp256k1/secp256k1.py", "ecdsa_raw_sign", "if s * 2 < N:", "if s * 2 <= N:", 0),
        ("c06-rec-inline", "py_ecc/secp256k1/secp256k1.py", "ecdsa_raw_recover", "jacobian_add(minus_zG, sR)", "jacobian_add(sR, minus_zG)", 0),
    ],
    "C19-g5-recover-tidy": [
        ("c19-branches", "py_ecc/secp256k1/secp256k1.py", "ecdsa_raw_recover", "        y = beta\n    else:\n        y = P - beta", "        y = P - beta\n    else:\n        y = beta", 0),
        ("c19-tojac", "py_ecc/secp256k1/secp256k1.py", "ecdsa_raw_recover", "to_jacobian(G)", "to_jacobian((Gy, Gx))", 0),
        ("c19-pt", "py_ecc/secp256k1/secp256k1.py", "ecdsa_raw_recover", "(r, y))", "(y, r))", 0),
    ],
    "C02-g5-refactor-verify-decompress": [
        ("c02-ge", "py_ecc/bls/point_compression.py", "decompress_G2", "y_im if y_im > 0 else y_re", "y_im if y_im >= 0 else y_re", 0),
        ("c02-swap", "py_ecc/bls/point_compression.py", "decompress_G2", "y_im if y_im > 0 else y_re", "y_re if y_im > 0 else y_im", 0),
        ("c02-not", "py_ecc/bls/point_compression.py", "decompress_G2", "if not (int(sign_coeff) * 2) // q == int(a_flag1):", "if (int(sign_coeff) * 2) // q == int(a_flag1):", 0),
        ("c02-pt", "py_ecc/bls/point_compression.py", "decompress_G2", "pt = (x, y, FQ2([1, 0]))", "pt = (x, y, FQ2([0, 1]))", 0),
        ("c02-real", "py_ecc/bls/point_compression.py", "decompress_G2", "FQ2([z2, x1])", "FQ2([x1, z2])", 0),
    ],
    "C11-g5-g1-sqrt-fq2-root-select": [
        ("c11-swap", "py_ecc/bls/point_compression.py", "decompress_G1", "y if y_flag == int(a_flag) else q - y", "q - y if y_flag == int(a_flag) else y", 0),
        ("c11-not", "py_ecc/bls/point_compression.py", "decompress_G1", "if not pow(y, 2, q) == rhs:", "if pow(y, 2, q) == rhs:", 0),
        ("c11-rhs", "py_ecc/bls/point_compression.py", "decompress_G1", "rhs = (x**3 + b.n) % q", "rhs = (x**3 - b.n) % q", 0),
        ("c11-flag", "py_ecc/bls/point_compression.py", "decompress_G1", "y_flag = (y * 2) // q", "y_flag = (y * 2 + 1) // q", 0),
    ],
    "C10-g5-swu-g2-tidy": [
        ("c10-demorgan", "py_ecc/optimized_bls12_381/optimized_swu.py", "optimized_swu_G2", "and not (success or success_2):", "and not (success and success_2):", 0),
        ("c10-raise", "py_ecc/optimized_bls12_381/optimized_swu.py", "optimized_swu_G2", "    if not (success or success_2):\n        # Unreachable", "    if not success_2:\n        # Unreachable", 0),
        ("c10-sgn", "py_ecc/optimized_bls12_381/optimized_swu.py", "optimized_swu_G2", "if not t.sgn0 == y.sgn0:", "if t.sgn0 == y.sgn0:", 0),
        ("c10-ux1", "py_ecc/optimized_bls12_381/optimized_swu.py", "optimized_swu_G2", "* v - u_x1", "* v - u", 0),
        ("c10-gamma", "py_ecc/optimized_bls12_381/optimized_swu.py", "sqrt_division_FQ2", "gamma = uv15**P_MINUS_9_DIV_16 * uv7", "gamma = uv15**P_MINUS_9_DIV_16 * uv15", 0),
    ],
    "C12-g5-refactor-bls-miller-finalexp": [
        ("c12-range", "py_ecc/optimized_bls12_381/optimized_pairing.py", "final_exponentiate", "range(6)", "range(5)", 0),
        ("c12-div", "py_ecc/optimized_bls12_381/optimized_pairing.py", "final_exponentiate", "(frobenius6 / easy)", "(frobenius6 * easy)", 0),
        ("c12-init", "py_ecc/optimized_bls12_381/optimized_pairing.py", "final_exponentiate", "frobenius6 = easy\n", "frobenius6 = p\n", 0),
        ("c12-ifexp", "py_ecc/optimized_bls12_381/optimized_pairing.py", "miller_loop", "if final_exponentiate else f", "if not final_exponentiate else f", 0),
        ("c12-line", "py_ecc/optimized_bls12_381/optimized_pairing.py", "miller_loop", "f_den = f_den * line_den", "f_den = f_den * line_num", 0),
    ],
    # a mixed refactoring written for this test (Miller loop body with other free locals, negated guards with swapped
    # branches, conditional expressions for `if` statements, hoisted / inlined locals); no mutations: only "it builds"
    "X1-robC-mixed": [],
    "C09-g5-inline-sign-serialization": [
        ("c09-order", "py_ecc/bls/g2_primitives.py", "G2_to_signature", "(i2osp(x_im_flagged, 48), i2osp(x_re, 48))", "(i2osp(x_re, 48), i2osp(x_im_flagged, 48))", 0),
        ("c09-len", "py_ecc/bls/g2_primitives.py", "G2_to_signature", "i2osp(x_re, 48)", "i2osp(x_re, 47)", 0),
        ("c09-pk", "py_ecc/bls/g2_primitives.py", "G1_to_pubkey", "i2osp(compress_G1(pt), 48)", "i2osp(compress_G1(pt), 49)", 0),
    ],
}


def build(lean, env):
    t0 = time.time()
    r = run(["lake", "build"] + TARGETS, cwd=lean, env=env)
    return r, time.time() - t0


def install(gen_out, gen_dir, saved):
    for c in MINE:
        src, dst = os.path.join(gen_out, c + ".lean"), os.path.join(gen_dir, c + ".lean")
        if dst not in saved:
            saved[dst] = open(dst).read()
        shutil.copy(src, dst)


def main():
    ap = argparse.ArgumentParser()
    ap.add_argument("--repo", required=True, help="a plain copy (e.g. `git archive`) of the repository")
    ap.add_argument("--refactorings", required=True)
    ap.add_argument("--lean", required=True)
    ap.add_argument("--work", default="/tmp/tie_selftest_refactored")
    ap.add_argument("--only", default=None, help="regex on refactoring names / mutation ids")
    a = ap.parse_args()
    gen_dir = os.path.join(a.lean, "PyEcc", "Gen")
    env = dict(os.environ)
    env["PATH"] = "/opt/veriftools/lean/bin:" + env["PATH"]
    saved, bad, rows = {}, [], []
    try:
        for name, muts in CASES.items():
            base = os.path.join(a.work, "repo_" + name.split("-")[0])
            shutil.rmtree(base, ignore_errors=True)
            shutil.copytree(a.repo, base, ignore=shutil.ignore_patterns(".git", "__pycache__", ".tox", "*.pyc"))
            patch = os.path.abspath(os.path.join(a.refactorings, name, "patch.diff"))
            r = run(["git", "apply", "--unsafe-paths", "--directory=" + base, patch], cwd="/")
            if r.returncode != 0:
                r = run(["patch", "-p1", "-i", patch], cwd=base)
            if r.returncode != 0:
                raise SystemExit(f"{name}: patch does not apply: {r.stdout[-300:]}{r.stderr[-300:]}")
            todo = [(None,) * 6] + [m for m in muts]
            for mid, rel, fn, old, new, occ in todo:
                label = f"{name}" if mid is None else f"{name}/{mid}"
                if a.only and not re.search(a.only, label):
                    continue
                repo_mut = base
                if mid is not None:
                    repo_mut = os.path.join(a.work, "repo_mut")
                    shutil.rmtree(repo_mut, ignore_errors=True)
                    shutil.copytree(base, repo_mut)
                    mutate(repo_mut, rel, fn, old, new, occ)
                gen_out = os.path.join(a.work, "Gen")
                shutil.rmtree(gen_out, ignore_errors=True)
                shutil.copytree(gen_dir, gen_out)
                for dst, txt in saved.items():      # regenerate against the pristine files
                    open(os.path.join(gen_out, os.path.basename(dst)), "w").write(txt)
                rc, info = regenerate(repo_mut, gen_out)
                errs = [e for e in info["errors"] if e[0] in MINE]
                if errs:
                    verdict, ok = "translator refused: " + "; ".join(f"{e[0]}: {e[1][:120]}" for e in errs), mid is not None
                else:
                    install(gen_out, gen_dir, saved)
                    r, dt = build(a.lean, env)
                    if mid is None:
                        ok = r.returncode == 0
                        verdict = f"refactored tree builds ({dt:.0f}s)" if ok else f"REFACTORED TREE DOES NOT BUILD ({dt:.0f}s)"
                    else:
                        ok = r.returncode != 0
                        first = [ln for ln in (r.stdout + r.stderr).splitlines() if ln.startswith("error: PyEcc")]
                        verdict = (f"caught: build failed ({dt:.0f}s) " + (first[0][:110] if first else "")) if ok \
                            else f"NOT CAUGHT: build succeeded ({dt:.0f}s)"
                rows.append((label, verdict))
                print(f"{label:58s} {verdict}", flush=True)
                if not ok:
                    bad.append(label)
    finally:
        for dst, txt in saved.items():
            open(dst, "w").write(txt)
    r, dt = build(a.lean, env)
    print("pristine rebuild:", "ok" if r.returncode == 0 else "FAILED\n" + r.stdout[-2000:])
    print(json.dumps({"checks": len(rows), "bad": bad}))
    return 1 if bad or r.returncode != 0 else 0


if __name__ == "__main__":
    sys.exit(main())
